use vstd::prelude::*;
use ::std::sync::Arc;
verus! {
macro_rules! trace { ($($t:tt)*) => { () } }
macro_rules! debug { ($($t:tt)*) => { () } }
macro_rules! warn  { ($($t:tt)*) => { () } }
macro_rules! error { ($($t:tt)*) => { () } }
#[derive(Debug)]
pub struct AnyErr { _p: u8 }
pub type Result<T> = ::std::result::Result<T, AnyErr>;
#[verifier::external_body] pub fn mk_err() -> AnyErr { unimplemented!() }
macro_rules! anyhow { ($($t:tt)*) => { mk_err() } }

pub struct Utf8Error { _p: u8 }
pub uninterp spec fn utf8_spec(b: Seq<u8>) -> Option<Seq<char>>;
#[verifier::external_body]
pub fn from_utf8(v: &Vec<u8>) -> (r: ::std::result::Result<&str, Utf8Error>)
    ensures match r { Ok(s) => utf8_spec(v@) == Some(s@), Err(_) => utf8_spec(v@) is None }
{ unimplemented!() }

pub struct PublicKey { pub b: [u8; 33] }
pub struct Hash { pub b: [u8; 32] }
pub struct ParseErr { _p: u8 }
pub struct SigErr { _p: u8 }
pub struct Bolt11Invoice { _p: u8 }
pub uninterp spec fn parse_spec(s: Seq<char>) -> Option<Bolt11Invoice>;
impl Bolt11Invoice {
    pub uninterp spec fn hash_spec(&self) -> Seq<u8>;
    pub uninterp spec fn amount_spec(&self) -> Option<u64>;
    pub uninterp spec fn sig_ok(&self) -> bool;
    pub uninterp spec fn payee_spec(&self) -> PublicKey;
    #[verifier::external_body]
    pub fn amount_milli_satoshis(&self) -> (r: Option<u64>) ensures r == self.amount_spec() { unimplemented!() }
    #[verifier::external_body]
    pub fn check_signature(&self) -> (r: ::std::result::Result<(), SigErr>) ensures r is Ok == self.sig_ok() { unimplemented!() }
    #[verifier::external_body]
    pub fn get_payee_pub_key(&self) -> (r: PublicKey) requires self.sig_ok(), ensures r == self.payee_spec() { unimplemented!() }
}
#[verifier::external_trait_specification]
pub trait ExFromStr: Sized {
    type ExternalTraitSpecificationFor: ::std::str::FromStr;
    type Err;
    fn from_str(s: &str) -> ::std::result::Result<Self, Self::Err>;
}
impl ::std::str::FromStr for Bolt11Invoice {
    type Err = ParseErr;
    #[verifier::external_body]
    fn from_str(s: &str) -> (r: ::std::result::Result<Self, ParseErr>) { unimplemented!() }
}
pub uninterp spec fn parse_any<F>(s: Seq<char>) -> Option<F>;
pub assume_specification<F: ::std::str::FromStr>[str::parse::<F>](s: &str) -> (r: ::std::result::Result<F, F::Err>)
    ensures match r { Ok(i) => parse_any::<F>(s@) == Some(i), Err(_) => parse_any::<F>(s@) is None };

pub mod bytes { use super::*;
    pub struct Bytes { pub data: Vec<u8> }
    impl From<Vec<u8>> for Bytes { #[verifier::external_body] fn from(v: Vec<u8>) -> (r: Bytes) ensures r.data@ == v@ { unimplemented!() } }
    impl Bytes { #[verifier::external_body] pub fn len(&self) -> (r: usize) ensures r == self.data@.len() { unimplemented!() } }
}
pub uninterp spec fn tu64_spec(b: Seq<u8>) -> Option<u64>;
pub trait ProtoBuf { fn get_tu64(&mut self) -> Result<u64>; }
impl ProtoBuf for bytes::Bytes {
    #[verifier::external_body]
    fn get_tu64(&mut self) -> (r: Result<u64>)
        ensures match r { Ok(v) => tu64_spec(old(self).data@) == Some(v), Err(_) => tu64_spec(old(self).data@) is None }
    { unimplemented!() }
}

#[derive(Clone)]
pub struct TlvEntry { pub typ: u64, pub value: Vec<u8> }
pub struct SerializedTlvStream { pub entries: Vec<TlvEntry> }
pub open spec fn first_of(es: Seq<TlvEntry>, t: u64) -> Option<TlvEntry> decreases es.len() {
    if es.len() == 0 { None } else if es[0].typ == t { Some(es[0]) } else { first_of(es.subrange(1, es.len() as int), t) }
}
pub uninterp spec fn tlv_parse(b: Seq<u8>) -> Option<Seq<TlvEntry>>;
impl SerializedTlvStream {
    #[verifier::external_body]
    pub fn get(&self, typ: u64) -> (r: Option<TlvEntry>) ensures r == first_of(self.entries@, typ) { unimplemented!() }
    #[verifier::external_body]
    pub fn from_bytes(s: Vec<u8>) -> (r: Result<Self>)
        ensures match r { Ok(t) => tlv_parse(s@) == Some(t.entries@), Err(_) => tlv_parse(s@) is None }
    { unimplemented!() }
}

pub struct TrampolineRoutingPolicy {
    pub fee_base_msat: u32,
    pub fee_proportional_millionths: u32,
    pub cltv_expiry_delta: u16,
}
impl Clone for TrampolineRoutingPolicy { #[verifier::external_body] fn clone(&self) -> (r: Self) ensures r == *self { unimplemented!() } }
pub struct TrampolineInfo {
    pub bolt11: String,
    pub invoice: Bolt11Invoice,
    pub payee: PublicKey,
    pub amount_msat: u64,
    pub routing_policy: TrampolineRoutingPolicy,
}
pub struct Onion { pub payload: SerializedTlvStream, pub forward_msat: Option<u64>, pub total_msat: Option<u64> }
pub struct Htlc { pub amount_msat: u64, pub cltv_expiry: u32, pub cltv_expiry_relative: i64, pub payment_hash: Vec<u8> }
pub struct HtlcAcceptedRequest { pub onion: Onion, pub htlc: Htlc }
pub struct Params { pub routing_policy: TrampolineRoutingPolicy }
pub struct HtlcManager { pub params: Arc<Params> }

const TLV_PAYMENT_METADATA: u64 = 16;
const TLV_TRAMPOLINE_INVOICE: u64 = 33001;
const TLV_TRAMPOLINE_AMOUNT: u64 = 33003;

impl HtlcManager {
    fn extract_trampoline_info(&self, req: &HtlcAcceptedRequest) -> (r: Result<Option<TrampolineInfo>>)
    ensures
        (r is Ok && r->Ok_0 is Some) ==> {
            let t = r->Ok_0->Some_0;
            &&& t.invoice.sig_ok()
            &&& t.invoice.hash_spec() == req.htlc.payment_hash@          // C01 / C10
            &&& (t.invoice.amount_spec() is Some ==> t.amount_msat == t.invoice.amount_spec()->0)
            &&& t.routing_policy == self.params.routing_policy
        },
    {
        let payment_metadata: SerializedTlvStream =
            match req.onion.payload.get(TLV_PAYMENT_METADATA) {
                Some(payment_metadata) => {
                    match SerializedTlvStream::from_bytes(payment_metadata.value) {
                        Ok(payment_metadata) => payment_metadata,
                        Err(e) => {
                            warn!("htlc had invalid payment metadata: {:?}", e);
                            return Ok(None);
                        }
                    }
                }
                None => {
                    trace!("htlc does not have payment metadata.");
                    return Ok(None);
                }
            };

        let invoice_blob = match payment_metadata.get(TLV_TRAMPOLINE_INVOICE) {
            Some(invoice_blob) => invoice_blob.value,
            None => {
                trace!("payment metadata does not contain invoice.");
                return Ok(None);
            }
        };

        let invoice_str = match from_utf8(&invoice_blob) {
            Ok(invoice_str) => invoice_str,
            Err(e) => {
                debug!("Got invalid trampoline invoice in htlc, not utf-8: {:?}", e);
                return Err(anyhow!("invalid trampoline invoice in tlv"));
            }
        };

        let invoice: Bolt11Invoice = match invoice_str.parse() {
            Ok(invoice) => invoice,
            Err(e) => {
                debug!(
                    "Got invalid trampoline invoice in htlc, not an invoice: {:?}",
                    e
                );
                return Err(anyhow!("invalid trampoline invoice in tlv"));
            }
        };

        // For now invoices need to have a valid signature, because the `pay`
        // command requires invoices to have a valid signature. Once we move away
        // from the `pay` command, we can remove this check. (note that when
        // removing this the payee pubkey check below needs to be rechecked so it
        // never panics)
        if invoice.check_signature().is_err() {
            return Err(anyhow!("invalid signature in trampoline invoice"));
        }

        // Note that this may panic if the signature is not checked.
        let payee = invoice.get_payee_pub_key();

        // Extract optional amount from the TLV
        let tlv_amount_msat = match payment_metadata.get(TLV_TRAMPOLINE_AMOUNT) {
            Some(amount_blob) => {
                let mut b: bytes::Bytes = amount_blob.value.into();
                match b.get_tu64() {
                    Ok(amount_msat) => Some(amount_msat),
                    Err(e) => {
                        debug!("Got invalid amount of len {} in htlc TLV: {:?}", b.len(), e);
                        None
                    }
                }
            }
            None => None,
        };

        // Either the invoice has an amount or the amount is set in the TLV.
        let amount_msat = match invoice.amount_milli_satoshis() {
            Some(invoice_amount_msat) => match tlv_amount_msat {
                Some(tlv_amount_msat) => {
                    if invoice_amount_msat == tlv_amount_msat {
                        invoice_amount_msat
                    } else {
                        return Err(anyhow!(
                            "non-matching amounts in invoice tlv {} and amount tlv {}",
                            invoice_amount_msat,
                            tlv_amount_msat
                        ));
                    }
                }
                None => invoice_amount_msat,
            },
            None => match tlv_amount_msat {
                Some(amount_msat) => amount_msat,
                None => return Err(anyhow!("missing amount in invoice and amount tlv")),
            },
        };

        Ok(Some(TrampolineInfo {
            routing_policy: self.params.routing_policy.clone(),
            amount_msat,
            bolt11: String::from(invoice_str),
            invoice,
            payee,
        }))
    }
}
} // verus!
fn main() {}
