use vstd::prelude::*;
verus! {
#[derive(Clone, Copy)]
pub struct Secret { pub b: u8 }
pub struct P { pub payment_preimage: Option<Secret> }
pub struct EnvVec<T> { pub v: Vec<T> }
pub struct EnvIter<'a, T> { pub s: &'a Vec<T> }
pub struct EnvFM<'a, T, F> { pub s: &'a Vec<T>, pub f: F }
impl<T> EnvVec<T> {
    #[verifier::external_body]
    pub fn iter<'a>(&'a self) -> (r: EnvIter<'a, T>) ensures r.s@ == self.v@ { unimplemented!() }
}
impl<'a, T> EnvIter<'a, T> {
    #[verifier::external_body]
    pub fn filter_map<B, F: FnMut(&'a T) -> Option<B>>(self, f: F) -> (r: EnvFM<'a, T, F>)
        ensures r.s@ == self.s@, r.f == f
    { unimplemented!() }
}
impl<'a, T, F> EnvFM<'a, T, F> {
    #[verifier::external_body]
    pub fn next<B>(&mut self) -> (r: Option<B>)
        where F: FnMut(&'a T) -> Option<B>
        requires forall|i: int| 0 <= i < old(self).s@.len() ==> call_requires(old(self).f, (&old(self).s@[i],)),
        ensures r is None ==> forall|i: int| 0 <= i < old(self).s@.len() ==> call_ensures(old(self).f, (&old(self).s@[i],), None::<B>),
    { unimplemented!() }
}

fn first(c: &EnvVec<P>) -> (r: Option<Secret>)
    ensures r is None ==> forall|i: int| 0 <= i < c.v@.len() ==> c.v@[i].payment_preimage is None,
{
    c
            .iter()
            .filter_map(|p: &P| -> (r: Option<Secret>) ensures r == p.payment_preimage { p.payment_preimage })
            .next()
}
} // verus!
fn main() {}
