use vstd::prelude::*;
use vstd::std_specs::cmp::OrdSpec;
verus! {

macro_rules! trace { ($($t:tt)*) => { () } }
macro_rules! error { ($($t:tt)*) => { () } }

// ===== environment =====
pub enum HtlcAcceptedResponse {
    Continue { payload: Option<Vec<u8>> },
    Fail { failure_message: Vec<u8> },
    Resolve { payment_key: Vec<u8> },
}
impl Clone for HtlcAcceptedResponse {
    #[verifier::external_body]
    fn clone(&self) -> (r: Self) ensures r == *self { unimplemented!() }
}

pub mod oneshot {
    use super::*;
    pub struct Sender<T> { pub p: core::marker::PhantomData<T> }
    impl<T> Sender<T> {
        // prophecy: the unique value that will ever be sent on this sender (None if dropped unsent)
        pub uninterp spec fn fate(&self) -> Option<T>;
        #[verifier::external_body]
        pub fn send(self, t: T) -> (r: Result<(), T>)
            ensures self.fate() == Some(t)
        { unimplemented!() }
    }
}
pub mod mpsc {
    use super::*;
    pub struct Sender<T> { pub p: core::marker::PhantomData<T> }
    pub struct SendError<T>(pub T);
    impl<T> Sender<T> {
        pub uninterp spec fn capacity(&self) -> nat;
        #[verifier::external_body]
        pub fn send(&self, t: T, Tracked(q): Tracked<&mut Seq<T>>) -> (r: Result<(), SendError<T>>)
            requires old(q).len() < self.capacity(),   // never blocks while the table lock is held
            ensures *final(q) == old(q).push(t)
        { unimplemented!() }
    }
}

pub struct Policy { pub base: u32, pub ppm: u32 }
impl Policy {
    pub open spec fn suff(&self, total: u64, amt: u64) -> bool { total >= amt }
    #[verifier::external_body]
    pub fn fee_sufficient(&self, total: u64, amt: u64) -> (r: bool) ensures r == self.suff(total, amt) { unimplemented!() }
}
pub struct TrampolineInfo { pub amount_msat: u64, pub routing_policy: Policy }
pub struct Htlc { pub amount_msat: u64, pub cltv_expiry: u32 }
pub struct HtlcAcceptedRequest { pub htlc: Htlc }

pub assume_specification<T: std::cmp::Ord>[std::cmp::min](a: T, b: T) -> (r: T)
    ensures T::obeys_cmp_spec() ==> r == (if a.cmp_spec(&b) == core::cmp::Ordering::Greater { b } else { a });

// ===== real text (htlc_manager.rs 678-787), ghost arguments appended mechanically =====
struct PaymentState {
    htlcs: Vec<oneshot::Sender<HtlcAcceptedResponse>>,
    trampoline: TrampolineInfo,
    is_ready: bool,
    payment_ready: mpsc::Sender<()>,
    fail_requested: mpsc::Sender<HtlcAcceptedResponse>,
    is_fail_requested: bool,
    amount_received_msat: u64,
    cltv_expiry: u32,
    resolution: Option<HtlcAcceptedResponse>,
}

pub struct G { pub ready_q: Seq<()>, pub fail_q: Seq<HtlcAcceptedResponse> }

impl PaymentState {
    spec fn inv(&self, g: &G) -> bool {
        &&& self.payment_ready.capacity() == 1
        &&& self.fail_requested.capacity() == 1
        &&& g.ready_q.len() <= 1
        &&& g.fail_q.len() <= 1
        &&& (g.ready_q.len() == 1 ==> self.is_ready || self.is_fail_requested)
        &&& (g.fail_q.len() == 1 <==> self.is_fail_requested)
    }

    fn add_htlc(
        &mut self,
        req: &HtlcAcceptedRequest,
        sender: oneshot::Sender<HtlcAcceptedResponse>,
        Tracked(g): Tracked<&mut G>,
    )
        requires old(self).inv(old(g)),
        ensures final(self).inv(final(g)),
    {
        if let Some(resolution) = &self.resolution {
            let _ = sender.send(resolution.clone());
            return;
        }

        self.amount_received_msat += req.htlc.amount_msat;
        self.cltv_expiry = std::cmp::min(req.htlc.cltv_expiry, self.cltv_expiry);
        self.htlcs.push(sender);
        if !self.is_ready
            && !self.is_fail_requested
            && self
                .trampoline
                .routing_policy
                .fee_sufficient(self.amount_received_msat, self.trampoline.amount_msat)
        {
            trace!(
                amount_received_msat = self.amount_received_msat,
                trampoline.amount_msat = self.trampoline.amount_msat,
                "Payment is ready."
            );
            self.is_ready = true;
            let _ = self.payment_ready.send((), Tracked(&mut g.ready_q));
        }
    }

    fn fail(&mut self, resp: HtlcAcceptedResponse, Tracked(g): Tracked<&mut G>)
        requires old(self).inv(old(g)),
        ensures final(self).inv(final(g)),
    {
        if !self.is_fail_requested {
            self.is_ready = false;
            self.is_fail_requested = true;

            let _ = self.fail_requested.send(resp, Tracked(&mut g.fail_q));
        }
    }

    fn resolve(&mut self, resp: HtlcAcceptedResponse)
        ensures final(self).htlcs@.len() == 0,
            forall|i: int| 0 <= i < old(self).htlcs@.len() ==> (#[trigger] old(self).htlcs@[i]).fate() == Some(resp),
    {
        trace!(resolution = field::debug(&resp), "resolving payment");
        self.resolution = Some(resp.clone());

        while let Some(listener) = self.htlcs.pop()
            invariant
                self.htlcs@.len() <= old(self).htlcs@.len(),
                self.htlcs@ == old(self).htlcs@.subrange(0, self.htlcs@.len() as int),
                forall|i: int| self.htlcs@.len() <= i < old(self).htlcs@.len() ==> (#[trigger] old(self).htlcs@[i]).fate() == Some(resp),
            ensures self.htlcs@.len() == 0,
                forall|i: int| 0 <= i < old(self).htlcs@.len() ==> (#[trigger] old(self).htlcs@[i]).fate() == Some(resp),
            decreases self.htlcs@.len(),
        {
            match listener.send(resp.clone()) {
                Ok(_) => {}
                Err(e) => error!("htlc listener hung up, could not send response {:?}", e),
            };
        }
    }
}

} // verus!
fn main() {}
