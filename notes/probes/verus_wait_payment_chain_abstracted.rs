use vstd::prelude::*;
use ::std::sync::Arc;
verus! {
#[derive(Debug)]
pub struct AnyErr { _p: u8 }
pub type Result<T> = ::std::result::Result<T, AnyErr>;
#[verifier::external_body] pub fn mk_err() -> AnyErr { unimplemented!() }
macro_rules! anyhow { ($($t:tt)*) => { mk_err() } }
pub mod sha256 { #[derive(Clone, Copy)] pub struct Hash { pub b: [u8; 32] } }
#[derive(Clone, Copy)]
pub struct Secret { pub b: [u8; 32] }
impl Secret { #[verifier::external_body] pub fn to_vec(&self) -> (r: Vec<u8>) ensures r@ == self.b@ { unimplemented!() } }
#[derive(PartialEq, Eq)]
pub enum ListsendpaysStatus { PENDING, COMPLETE, FAILED }
pub struct ListsendpaysRequest { pub payment_hash: Option<sha256::Hash>, pub bolt11: Option<String>, pub index: Option<u8>, pub limit: Option<u32>, pub start: Option<u64>, pub status: Option<ListsendpaysStatus> }
pub struct ListsendpaysPayments { pub groupid: u64, pub partid: Option<u64>, pub payment_preimage: Option<Secret> }
pub struct ListsendpaysResponse { pub payments: Vec<ListsendpaysPayments> }
pub struct WaitsendpayRequest { pub groupid: Option<u64>, pub partid: Option<u64>, pub payment_hash: sha256::Hash, pub timeout: Option<u32> }
pub struct WaitsendpayResponse { pub payment_preimage: Option<Secret> }
pub struct ClnRpcError { pub code: Option<i32> }
pub enum RpcError { Rpc(ClnRpcError), General(AnyErr) }
impl From<RpcError> for AnyErr { #[verifier::external_body] fn from(e: RpcError) -> AnyErr { unimplemented!() } }

pub struct Node { pub pending: nat, pub complete: Option<Seq<u8>> }
pub open spec fn live(n: Node) -> bool { n.pending > 0 || n.complete is Some }
// parts may resolve between any two RPCs
pub open spec fn rely(a: Node, b: Node) -> bool { b.pending <= a.pending && (a.complete is Some ==> b.complete == a.complete) && (!live(a) ==> !live(b)) }

pub trait ClnRpc {
    fn listsendpays(&self, request: &ListsendpaysRequest, Tracked(w): Tracked<&mut Node>) -> (r: ::std::result::Result<ListsendpaysResponse, RpcError>)
        ensures rely(*old(w), *final(w)),
            // a snapshot taken at some instant during the call
            r is Ok ==> (request.status == Some(ListsendpaysStatus::PENDING) ==> exists|m: Node| rely(*old(w), m) && rely(m, *final(w)) && r->Ok_0.payments@.len() == m.pending),
            r is Ok ==> (request.status == Some(ListsendpaysStatus::COMPLETE) ==> exists|m: Node| rely(*old(w), m) && rely(m, *final(w)) && (r->Ok_0.payments@.len() == 0 <==> m.complete is None));
    fn waitsendpay(&self, Tracked(w): Tracked<&mut Node>, request: WaitsendpayRequest) -> (r: ::std::result::Result<WaitsendpayResponse, RpcError>)
        ensures rely(*old(w), *final(w));
}
#[verifier::external_body]
pub fn first_preimage(v: &Vec<ListsendpaysPayments>) -> (r: Option<Secret>)
    ensures r is None ==> forall|i: int| 0 <= i < v@.len() ==> v@[i].payment_preimage is None
{ unimplemented!() }
pub struct FuturesUnordered<T> { pub q: Vec<T> }
impl<T> FuturesUnordered<T> {
    pub fn new() -> (r: Self) ensures r.q@.len() == 0 { FuturesUnordered { q: Vec::new() } }
    pub fn push(&mut self, t: T) ensures final(self).q@ == old(self).q@.push(t) { self.q.push(t) }
    pub fn next(&mut self) -> (r: Option<T>) ensures r is None <==> old(self).q@.len() == 0, final(self).q@.len() == (if old(self).q@.len() == 0 { 0 } else { old(self).q@.len() - 1 }) { self.q.pop() }
}
pub struct PayPaymentProvider<R: ClnRpc> { retry_for: u16, rpc: Arc<R>, xpay: bool }
impl<R: ClnRpc> PayPaymentProvider<R> {
    fn wait_payment(&self, payment_hash: sha256::Hash, Tracked(w): Tracked<&mut Node>) -> (r: Result<Option<Vec<u8>>>)
    ensures
        (r is Ok && r->Ok_0 is None) ==> !live(*final(w)),
{
        let completed_req = ListsendpaysRequest {
            payment_hash: Some(payment_hash),
            bolt11: None,
            index: None,
            limit: None,
            start: None,
            status: Some(ListsendpaysStatus::COMPLETE),
        };
        let completed_payments_fut = self.rpc.listsendpays(&completed_req, Tracked(w));
        let pending_req = ListsendpaysRequest {
            payment_hash: Some(payment_hash),
            bolt11: None,
            index: None,
            limit: None,
            start: None,
            status: Some(ListsendpaysStatus::PENDING),
        };
        let pending_payments_fut = self.rpc.listsendpays(&pending_req, Tracked(w));
        let (completed_payments, pending_payments) =
            (completed_payments_fut, pending_payments_fut);
        let (completed_payments, pending_payments) = (completed_payments?, pending_payments?);

        if let Some(preimage) = first_preimage(&completed_payments.payments)
        {
            return Ok(Some(preimage.to_vec()));
        }

        let mut tasks = FuturesUnordered::new();

        for payment in pending_payments.payments {
            tasks.push(self.rpc.waitsendpay(Tracked(w), WaitsendpayRequest {
                groupid: Some(payment.groupid),
                partid: payment.partid,
                payment_hash,
                timeout: None,
            }));
        }

        while let Some(res) = tasks.next()
            invariant true,
            decreases tasks.q@.len(),
        {
            match res {
                Ok(res) => {
                    if let Some(preimage) = res.payment_preimage {
                        return Ok(Some(preimage.to_vec()));
                    }
                }
                Err(e) => match e {
                    RpcError::Rpc(e) => match e.code {
                        Some(code) => match code {
                            -1 => return Err(anyhow!("{:?}", e)),
                            200 => return Err(anyhow!("timeout")),
                            202 => {}
                            203 => {}
                            204 => {}
                            208 => {}
                            209 => {}
                            _ => return Err(anyhow!("unknown rpc error code {}: {:?}", code, e)),
                        },
                        None => return Err(anyhow!("unknown rpc error without code {:?}", e)),
                    },
                    RpcError::General(e) => return Err(e),
                },
            }
        }

        Ok(None)
    }
}
} // verus!
fn main() {}
