// appended to a scratch copy of /repo/src/main.rs; see README.md
#[cfg(kani)]
mod kani_probe {
    use crate::messages::{TrampolineRoutingPolicy, HtlcFailReason};
    use crate::tlv::{SerializedTlvStream, TlvEntry, ProtoBuf, ProtoBufMut};
    use bytes::{BytesMut, BufMut};
    use tokio_util::codec::Decoder;

    #[kani::proof]
    fn k_encode_policy() {
        let b: u32 = kani::any(); let p: u32 = kani::any(); let d: u16 = kani::any();
        let e = HtlcFailReason::TrampolineFeeOrExpiryInsufficient(TrampolineRoutingPolicy{fee_base_msat:b, fee_proportional_millionths:p, cltv_expiry_delta:d}).encode();
        assert!(e.len() == 12);
        assert!(e[0] == 0x20 && e[1] == 26);
        assert!(u32::from_be_bytes([e[2],e[3],e[4],e[5]]) == b);
        assert!(u32::from_be_bytes([e[6],e[7],e[8],e[9]]) == p);
        assert!(u16::from_be_bytes([e[10],e[11]]) == d);
    }

    #[kani::proof]
    #[kani::unwind(12)]
    fn k_tu64() {
        let arr: [u8; 10] = kani::any();
        let len: usize = kani::any();
        kani::assume(len <= 10);
        let mut b: bytes::Bytes = bytes::Bytes::copy_from_slice(&arr[..len]);
        let r = b.get_tu64();
        if len > 8 { assert!(r.is_err()); std::mem::forget(r); }
        else {
            let mut exp: u64 = 0;
            let mut i = 0;
            while i < len { exp = (exp << 8) | arr[i] as u64; i += 1; }
            match r { Ok(v) => assert!(v == exp), Err(e) => { std::mem::forget(e); assert!(false) } }
        }
    }

    #[kani::proof]
    #[kani::unwind(6)]
    fn k_remove_get() {
        let n: usize = kani::any();
        kani::assume(n <= 3);
        let mut v: Vec<TlvEntry> = Vec::new();
        let t0: u64 = kani::any(); let t1: u64 = kani::any(); let t2: u64 = kani::any();
        if n > 0 { v.push(TlvEntry{typ:t0, value: vec![]}); }
        if n > 1 { v.push(TlvEntry{typ:t1, value: vec![]}); }
        if n > 2 { v.push(TlvEntry{typ:t2, value: vec![]}); }
        let mut s = SerializedTlvStream::from(v);
        let q: u64 = kani::any();
        let g = s.get(q);
        let present = (n>0 && t0==q) || (n>1 && t1==q) || (n>2 && t2==q);
        assert!(g.is_some() == present);
        s.remove(q);
    }

    #[kani::proof]
    #[kani::unwind(10)]
    fn k_put_get_roundtrip() {
        let x: u64 = kani::any();
        let mut b = BytesMut::new();
        b.put_compact_size(x);
        let v = b.to_vec();
        let mut sl: &[u8] = &v[..];
        let y = sl.get_compact_size();
        assert!(x == y);
        assert!(sl.len() == 0);
    }

    #[kani::proof]
    #[kani::unwind(8)]
    fn k_ml_decode() {
        let arr: [u8; 5] = kani::any();
        let len: usize = kani::any();
        kani::assume(len <= 5);
        let mut buf = BytesMut::new();
        buf.put_slice(&arr[..len]);
        let mut c = crate::cln_plugin::kani_codec();
        let r = c.decode(&mut buf);
        std::mem::forget(r);
    }
}
