use vstd::prelude::*;
use std::sync::Arc;
verus! {

pub struct AnyErr { _p: u8 }
pub type Result<T> = std::result::Result<T, AnyErr>;

pub struct Mutex<T> { pub t: T }
impl<T> Mutex<T> {
    #[verifier::external_body]
    pub fn lock(&self, Tracked(cell): Tracked<&mut T>) -> (g: &mut T)
        ensures *g == *old(cell), *final(cell) == *final(g)
    { unimplemented!() }
}

fn update_height(new_height: u32, current_height: Arc<Mutex<u32>>, Tracked(h): Tracked<&mut u32>) -> (r: Result<Option<u32>>)
    ensures *final(h) == (if new_height > *old(h) { new_height } else { *old(h) }),
        *final(h) >= *old(h),
{
    let mut current_height = current_height.lock(Tracked(h));
    let updated = if new_height > *current_height {
        *current_height = new_height;
        Some(*current_height)
    } else {
        None
    };

    Ok(updated)
}

} // verus!
fn main() {}
