use vstd::prelude::*;
verus! {

pub struct TrampolineRoutingPolicy {
    pub fee_base_msat: u32,
    pub fee_proportional_millionths: u32,
    pub cltv_expiry_delta: u16,
}

pub open spec fn fee_rhs(base: u32, ppm: u32, amount: u64) -> int {
    amount as int + base as int + (amount as int * ppm as int) / 1_000_000
}

impl TrampolineRoutingPolicy {
    pub fn fee_sufficient(&self, total_msat: u64, invoice_msat: u64) -> (r: bool)
        ensures
            (invoice_msat as int * self.fee_proportional_millionths as int) <= u64::MAX ==> r == (total_msat as int >= fee_rhs(self.fee_base_msat, self.fee_proportional_millionths, invoice_msat)),
    {
        if total_msat < invoice_msat {
            return false;
        }

        let rate_part = match invoice_msat.checked_mul(self.fee_proportional_millionths as u64) {
            Some(rate_part) => rate_part / 1_000_000,
            None => return false,
        };

        let fee_msat = match (self.fee_base_msat as u64).checked_add(rate_part) {
            Some(total_part) => total_part,
            None => return false,
        };

        total_msat >= invoice_msat + fee_msat
    }
}

} // verus!
fn main() {}
