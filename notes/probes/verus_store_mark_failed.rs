use vstd::prelude::*;
use ::std::sync::Arc;
verus! {
#[derive(Debug)]
pub struct AnyErr { _p: u8 }
pub type Result<T> = ::std::result::Result<T, AnyErr>;
pub struct SerdeErr { _p: u8 }
pub struct RpcError { _p: u8 }
impl From<SerdeErr> for AnyErr { #[verifier::external_body] fn from(e: SerdeErr) -> AnyErr { unimplemented!() } }
impl From<RpcError> for AnyErr { #[verifier::external_body] fn from(e: RpcError) -> AnyErr { unimplemented!() } }
pub mod serde_json { use super::*;
    pub uninterp spec fn ser<T>(v: T) -> Seq<char>;
    #[verifier::external_body]
    pub fn to_string<T>(v: &T) -> (r: ::std::result::Result<String, SerdeErr>) ensures r is Ok, r->Ok_0@ == ser(*v) { unimplemented!() }
}
pub struct Hash { pub b: [u8; 32] }
pub mod sha256 { pub use super::Hash; }
impl Hash {
    pub uninterp spec fn hex_spec(&self) -> Seq<char>;
    #[verifier::external_body]
    pub fn encode_hex(&self) -> (r: String) ensures r@ == self.hex_spec() { unimplemented!() }
}
pub struct Bolt11Invoice { _p: u8 }
impl Bolt11Invoice {
    pub uninterp spec fn hash_spec(&self) -> Hash;
    #[verifier::external_body]
    pub fn payment_hash(&self) -> (r: &Hash) ensures *r == self.hash_spec() { unimplemented!() }
}
pub struct TrampolineInfo { pub bolt11: String, pub invoice: Bolt11Invoice, pub amount_msat: u64 }

pub enum DatastoreMode { MUST_CREATE, MUST_REPLACE, CREATE_OR_REPLACE, MUST_APPEND, CREATE_OR_APPEND }
pub struct DatastoreRequest { pub generation: Option<u64>, pub key: Vec<String>, pub string: Option<String>, pub hex: Option<String>, pub mode: Option<DatastoreMode> }
pub struct DatastoreResponse { pub generation: Option<u64> }

pub type Key = Seq<Seq<char>>;
pub struct Data { pub map: Map<Key, (Seq<char>, u64)>, pub faulted: bool }
pub open spec fn key_view(k: Vec<String>) -> Key { Seq::new(k@.len(), |i: int| k@[i]@) }
pub open spec fn ds_ok(d: Data, req: DatastoreRequest) -> bool {
    let k = key_view(req.key);
    match req.mode {
        Some(DatastoreMode::MUST_CREATE) => !d.map.contains_key(k),
        Some(DatastoreMode::MUST_REPLACE) => d.map.contains_key(k) && (req.generation is Some ==> d.map[k].1 == req.generation->0),
        Some(DatastoreMode::CREATE_OR_REPLACE) => true,
        _ => false,
    }
}
pub struct Rpc { _p: u8 }
impl Rpc {
    #[verifier::external_body]
    pub fn datastore(&self, Tracked(w): Tracked<&mut Data>, request: &DatastoreRequest) -> (r: ::std::result::Result<DatastoreResponse, RpcError>)
        requires request.string is Some,
        ensures
            // either a fault (transport error; effect unknown) or CLN semantics
            (final(w).faulted && !old(w).faulted) || (final(w).faulted == old(w).faulted && (
                if ds_ok(*old(w), *request) {
                    r is Ok && final(w).map == old(w).map.insert(key_view(request.key), (request.string->0@, if old(w).map.contains_key(key_view(request.key)) { (old(w).map[key_view(request.key)].1 + 1) as u64 } else { 0 }))
                } else { r is Err && final(w).map == old(w).map })),
    { unimplemented!() }
}
pub struct ClnDatastore { rpc: Arc<Rpc> }

pub open spec fn state_key_spec(h: Hash) -> Key { seq!["trampoline"@, "payments"@, h.hex_spec(), "state"@] }

struct AttemptInfo {
    amount_msat: u64,
    bolt11: String,
    completed: bool,
    success: bool,
}
enum PersistPaymentState {
    Free,
    Pending {
        attempt_id: String,
        attempt_time_seconds: u64,
    },
    Succeeded {
        preimage: Vec<u8>,
    },
}
pub struct AttemptId {
    pub attempt_id: String,
    pub state_generation: u64,
}
impl ClnDatastore {
    fn mark_failed(&self, trampoline: &TrampolineInfo, attempt_id: &AttemptId, Tracked(w): Tracked<&mut Data>) -> (r: Result<()>)
    requires
        old(w).map.contains_key(state_key_spec(trampoline.invoice.hash_spec())),
        old(w).map[state_key_spec(trampoline.invoice.hash_spec())].1 == attempt_id.state_generation,
    ensures
        !final(w).faulted ==> r is Ok,
{
        let info = AttemptInfo {
            amount_msat: trampoline.amount_msat,
            bolt11: trampoline.bolt11.clone(),
            completed: true,
            success: false,
        };
        let info = serde_json::to_string(&info)?;
        self.rpc
            .datastore(Tracked(w), &DatastoreRequest {
                key: attempt_key(
                    trampoline.invoice.payment_hash(),
                    attempt_id.attempt_id.clone(),
                ),
                string: Some(info),
                hex: None,
                mode: Some(DatastoreMode::MUST_REPLACE),
                generation: None,
            })?;
        let state = PersistPaymentState::Free;
        let state = serde_json::to_string(&state)?;
        self.rpc
            .datastore(Tracked(w), &DatastoreRequest {
                generation: Some(attempt_id.state_generation),
                string: Some(state),
                key: state_key(trampoline.invoice.payment_hash()),
                hex: None,
                mode: Some(DatastoreMode::MUST_REPLACE),
            })?;

        Ok(())
    }
}
fn state_key(payment_hash: &sha256::Hash) -> Vec<String> {
    vec![
        String::from("trampoline"),
        String::from("payments"),
        payment_hash.encode_hex(),
        String::from("state"),
    ]
}

fn attempt_key(payment_hash: &sha256::Hash, attempt_id: String) -> Vec<String> {
    vec![
        String::from("trampoline"),
        String::from("payments"),
        payment_hash.encode_hex(),
        String::from("attempts"),
        attempt_id,
    ]
}
} // verus!
fn main() {}
