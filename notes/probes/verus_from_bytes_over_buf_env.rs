#![feature(sized_hierarchy)]
use vstd::prelude::*;
verus! {

// ===== assumed environment =====
#[verifier::external_trait_specification]
pub trait ExAsRef<T: core::marker::PointeeSized>: core::marker::PointeeSized {
    type ExternalTraitSpecificationFor: core::convert::AsRef<T>;
    fn as_ref(&self) -> &T;
}

pub struct AnyErr { _p: u8 }
pub mod anyhow { pub type Error = super::AnyErr; }
#[verifier::external_body]
pub fn mk_err() -> AnyErr { AnyErr { _p: 0 } }
macro_rules! anyhow { ($($t:tt)*) => { mk_err() } }

pub struct Bytes { pub data: Vec<u8> }
impl Bytes {
    pub fn to_vec(&self) -> (r: Vec<u8>) ensures r@ == self.data@ { self.data.clone() }
}

pub trait Buf {
    spec fn bview(&self) -> Seq<u8>;
    fn remaining(&self) -> (r: usize)
        ensures r == self.bview().len();
    fn get_u8(&mut self) -> (r: u8)
        requires old(self).bview().len() >= 1,
        ensures r == old(self).bview()[0], final(self).bview() == old(self).bview().subrange(1, old(self).bview().len() as int);
    fn get_u16(&mut self) -> (r: u16)
        requires old(self).bview().len() >= 2,
        ensures r as int == old(self).bview()[0] as int * 256 + old(self).bview()[1] as int,
            final(self).bview() == old(self).bview().subrange(2, old(self).bview().len() as int);
    fn copy_to_bytes(&mut self, len: usize) -> (r: Bytes)
        requires old(self).bview().len() >= len,
        ensures r.data@ == old(self).bview().subrange(0, len as int),
            final(self).bview() == old(self).bview().subrange(len as int, old(self).bview().len() as int);
}

impl<'a> Buf for &'a [u8] {
    open spec fn bview(&self) -> Seq<u8> { (*self)@ }
    #[verifier::external_body]
    fn remaining(&self) -> (r: usize) { self.len() }
    #[verifier::external_body]
    fn get_u8(&mut self) -> (r: u8) { unimplemented!() }
    #[verifier::external_body]
    fn get_u16(&mut self) -> (r: u16) { unimplemented!() }
    #[verifier::external_body]
    fn copy_to_bytes(&mut self, len: usize) -> (r: Bytes) { unimplemented!() }
}

pub type CompactSize = u64;

pub trait ProtoBuf: Buf {
    fn get_compact_size(&mut self) -> (r: CompactSize)
        requires old(self).bview().len() >= 3,
        ensures final(self).bview().len() >= old(self).bview().len() - 3,
            final(self).bview().len() < old(self).bview().len(),
    {
        match self.get_u8() {
            253 => self.get_u16().into(),
            v => v.into(),
        }
    }
}
impl<'a> ProtoBuf for &'a [u8] {}

pub struct TlvEntry {
    pub typ: u64,
    pub value: Vec<u8>,
}
pub struct SerializedTlvStream {
    entries: Vec<TlvEntry>,
}

pub trait FromBytes: Sized {
    type Error;
    fn from_bytes<T>(s: T) -> Result<Self, Self::Error>
    where
        T: AsRef<[u8]> + 'static;
}

impl FromBytes for SerializedTlvStream {
    type Error = anyhow::Error;
    fn from_bytes<T>(s: T) -> Result<Self, Self::Error>
    where
        T: AsRef<[u8]> + 'static,
    {
        let mut b = s.as_ref();
        //let mut b: bytes::Bytes = r.into();
        let mut entries: Vec<TlvEntry> = vec![];
        while b.remaining() >= 2 
            decreases b.bview().len()
        {
            let typ = b.get_compact_size();
            let len = b.get_compact_size() as usize;
            if b.remaining() < len {
                return Err(anyhow!(
                    "trying to advance {}, but remaining length is {}",
                    len,
                    b.remaining()
                ));
            }
            let value = b.copy_to_bytes(len).to_vec();
            entries.push(TlvEntry { typ, value });
        }

        Ok(SerializedTlvStream { entries })
    }
}

} // verus!
fn main() {}
