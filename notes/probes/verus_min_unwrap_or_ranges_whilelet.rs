use vstd::prelude::*;
use vstd::std_specs::cmp::OrdSpec;
verus! {

pub assume_specification<T: std::cmp::Ord>[std::cmp::min](a: T, b: T) -> (r: T)
    ensures T::obeys_cmp_spec() ==> r == (if a.cmp_spec(&b) == core::cmp::Ordering::Greater { b } else { a });
pub assume_specification<T, E>[std::result::Result::<T, E>::unwrap_or](s: std::result::Result<T, E>, d: T) -> (r: T)
    ensures r == (match s { Ok(v) => v, Err(_) => d });
// ---- probe A: saturating_sub / min / try_into / unwrap_or
fn max_cltv(cltv_expiry: u32, current_height: u32, cltv_delta: u16, policy_delta: u16) -> (r: u16)
    ensures r <= policy_delta,
            r as int <= (if cltv_expiry as int - current_height as int - cltv_delta as int > 0 { cltv_expiry as int - current_height as int - cltv_delta as int } else { 0 }),
{
    let max_cltv_delta = std::cmp::min(
        cltv_expiry
            .saturating_sub(current_height)
            .saturating_sub(cltv_delta as u32)
            .try_into()
            .unwrap_or(u16::MAX),
        policy_delta,
    );
    max_cltv_delta
}

// ---- probe B: range patterns on u64
fn classify(cs: u64) -> (r: u8) {
    match cs {
        0..=0xFC => 1,
        0xFD..=0xFFFF => 3,
        0x10000..=0xFFFFFFFF => 5,
        v => 9,
    }
}

// ---- probe C: while let pop
fn drain(v: &mut Vec<u8>) -> (n: usize)
    ensures final(v)@.len() == 0,
{
    let mut n: usize = 0;
    while let Some(x) = v.pop()
        invariant n <= 0,
        decreases v@.len(),
    {
    }
    n
}

} // verus!
fn main() {}
