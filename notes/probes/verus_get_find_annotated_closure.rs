use vstd::prelude::*;
use vstd::std_specs::iter::IteratorSpec;
verus! {
pub struct TlvEntry { pub typ: u64, pub value: Vec<u8> }
impl Clone for TlvEntry {
    #[verifier::external_body]
    fn clone(&self) -> (r: Self) ensures r == *self { unimplemented!() }
}
pub struct S { pub entries: Vec<TlvEntry> }
impl S {
    pub fn get(&self, typ: u64) -> (r: Option<TlvEntry>)
        ensures
            r is Some ==> r->0.typ == typ,
            r is None ==> forall|i: int| 0 <= i < self.entries@.len() ==> self.entries@[i].typ != typ,
    {
        self.entries.iter().find(|e: &&TlvEntry| -> (b: bool) ensures b == (e.typ == typ) { e.typ == typ }).cloned()
    }
}
} // verus!
fn main() {}
