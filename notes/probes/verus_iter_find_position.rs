use vstd::prelude::*;
verus! {

pub assume_specification<'a, T, P>[<std::slice::Iter<'a, T> as std::iter::Iterator>::position](it: &mut std::slice::Iter<'a, T>, pred: P) -> (r: std::option::Option<usize>)
    where P: std::ops::FnMut(&'a T) -> bool, std::slice::Iter<'a, T>: std::marker::Sized,
    ensures true;

pub struct TlvEntry {
    pub typ: u64,
    pub value: Vec<u8>,
}
impl Clone for TlvEntry {
    #[verifier::external_body]
    fn clone(&self) -> (r: Self) ensures r == *self { unimplemented!() }
}
pub struct SerializedTlvStream {
    entries: Vec<TlvEntry>,
}

impl SerializedTlvStream {
    pub closed spec fn ents(&self) -> Seq<TlvEntry> { self.entries@ }

    pub fn get(&self, typ: u64) -> (r: Option<TlvEntry>)
        ensures
            r is Some ==> r->0.typ == typ && exists|i: int| 0 <= i < self.ents().len() && self.ents()[i] == r->0,
            r is None ==> forall|i: int| 0 <= i < self.ents().len() ==> self.ents()[i].typ != typ,
    {
        self.entries.iter().find(|e| e.typ == typ).cloned()
    }

    pub fn remove(&mut self, typ: u64) {
        if let Some(position) = self.entries.iter().position(|e| e.typ == typ) {
            self.entries.remove(position);
        }
    }
}

} // verus!
fn main() {}
