use vstd::prelude::*;
use ::std::sync::Arc;
verus! {
macro_rules! debug { ($($t:tt)*) => { () } }
macro_rules! warn  { ($($t:tt)*) => { () } }
#[derive(Debug)]
pub struct AnyErr { _p: u8 }
pub type Result<T> = ::std::result::Result<T, AnyErr>;
#[verifier::external_body] pub fn mk_err() -> AnyErr { unimplemented!() }
macro_rules! anyhow { ($($t:tt)*) => { mk_err() } }
#[verifier::external_body] pub fn mk_string() -> String { unimplemented!() }
macro_rules! format { ($($t:tt)*) => { mk_string() } }
pub mod std {
    pub use ::std::cmp; pub use ::std::sync; pub use ::std::result; pub use ::std::option;
}
pub struct SystemTime { pub t: u64 }
#[derive(Debug)] pub struct SystemTimeError { pub p: u8 }
pub const UNIX_EPOCH: SystemTime = SystemTime { t: 0 };
pub struct Dur { pub s: u64 }
impl Dur { #[verifier::external_body] pub fn as_secs(&self) -> u64 { unimplemented!() } }
impl SystemTime {
    #[verifier::external_body] pub fn now() -> SystemTime { unimplemented!() }
    #[verifier::external_body] pub fn duration_since(&self, o: SystemTime) -> ::std::result::Result<Dur, SystemTimeError> { unimplemented!() }
}
impl From<SystemTimeError> for AnyErr { #[verifier::external_body] fn from(e: SystemTimeError) -> AnyErr { unimplemented!() } }

pub mod sha256 { #[derive(Clone, Copy)] pub struct Hash { pub b: [u8; 32] } }
#[derive(Clone, Copy)]
pub struct Secret { pub b: [u8; 32] }
impl Secret { #[verifier::external_body] pub fn to_vec(&self) -> (r: Vec<u8>) ensures r@ == self.b@ { unimplemented!() } }
pub struct Amount { pub msat: u64 }
impl Amount { pub fn from_msat(m: u64) -> (r: Amount) ensures r.msat == m { Amount { msat: m } } }
pub enum PayStatus { COMPLETE, PENDING, FAILED }
pub struct PayRequest { pub amount_msat: Option<Amount>, pub partial_msat: Option<Amount>, pub bolt11: String, pub label: Option<String>, pub riskfactor: Option<f64>, pub maxfeepercent: Option<f64>, pub retry_for: Option<u16>, pub maxdelay: Option<u16>, pub exemptfee: Option<Amount>, pub localinvreqid: Option<String>, pub exclude: Option<Vec<String>>, pub maxfee: Option<Amount>, pub description: Option<String> }
pub struct PayResponse { pub status: PayStatus, pub payment_preimage: Secret, pub warning_partial_completion: Option<String> }
pub struct RpcError { pub p: u8 }
impl RpcError { #[verifier::external_body] pub fn to_string(&self) -> String { unimplemented!() } }

pub struct Node { pub pending: nat, pub complete: Option<Seq<u8>> }
pub open spec fn live(n: Node) -> bool { n.pending > 0 || n.complete is Some }
pub open spec fn rely(a: Node, b: Node) -> bool { b.pending <= a.pending && (a.complete is Some ==> b.complete == a.complete) && (!live(a) ==> !live(b)) }

pub trait ClnRpc {
    fn pay(&self, request: &PayRequest, Tracked(w): Tracked<&mut Node>) -> (r: ::std::result::Result<PayResponse, RpcError>)
        ensures
            r is Ok ==> match r->Ok_0.status {
                PayStatus::COMPLETE => final(w).complete == Some(r->Ok_0.payment_preimage.b@),
                PayStatus::FAILED => r->Ok_0.warning_partial_completion is None ==> !live(*final(w)),
                PayStatus::PENDING => true,
            };
}
pub struct PaymentRequest {
    pub bolt11: String,
    pub payment_hash: sha256::Hash,
    pub amount_msat: Option<u64>,
    pub max_fee_msat: u64,
    pub max_cltv_delta: u16,
}
pub struct PayPaymentProvider<R: ClnRpc> { retry_for: u16, rpc: Arc<R>, xpay: bool }
impl<R: ClnRpc> PayPaymentProvider<R> {
    #[verifier::external_body]
    fn wait_payment(&self, payment_hash: sha256::Hash, Tracked(w): Tracked<&mut Node>) -> (r: Result<Option<Vec<u8>>>)
        ensures (r is Ok && r->Ok_0 is Some) ==> final(w).complete == Some(r->Ok_0->Some_0@),
            (r is Ok && r->Ok_0 is None) ==> !live(*final(w)),
    { unimplemented!() }
    fn pay(&self, req: PaymentRequest, Tracked(w): Tracked<&mut Node>) -> (r: Result<Vec<u8>>)
    ensures
        r is Ok ==> final(w).complete == Some(r->Ok_0@),
        r is Err ==> !live(*final(w)),
{
        let pay_req = if self.xpay {
            PayRequest {
                amount_msat: req.amount_msat.map(Amount::from_msat),
                partial_msat: None,
                bolt11: req.bolt11,
                label: None,
                riskfactor: None,
                maxfeepercent: None,
                retry_for: Some(self.retry_for),
                maxdelay: Some(req.max_cltv_delta),
                exemptfee: None,
                localinvreqid: None,
                exclude: None,
                maxfee: Some(Amount::from_msat(req.max_fee_msat)),
                description: None,
            }
        } else {
            let now = SystemTime::now().duration_since(UNIX_EPOCH)?.as_secs();
            let label = format!("trampoline-{}-{}", req.bolt11, now);
            PayRequest {
                amount_msat: req.amount_msat.map(Amount::from_msat),
                partial_msat: None,
                bolt11: req.bolt11,
                label: Some(label),
                riskfactor: Some(20.0),
                maxfeepercent: None,
                retry_for: Some(self.retry_for),
                maxdelay: Some(req.max_cltv_delta),
                exemptfee: None,
                localinvreqid: None,
                exclude: None,
                maxfee: Some(Amount::from_msat(req.max_fee_msat)),
                description: None,
            }
        };

        // TODO: extract the failure reason here?
        let resp = match self.rpc.pay(&pay_req, Tracked(w)) {
            Ok(resp) => resp,
            Err(e) => {
                debug!("pay returned error {:?}", e);
                return match self.wait_payment(req.payment_hash, Tracked(w))? {
                    Some(preimage) => Ok(preimage),
                    None => Err(anyhow!(e.to_string())),
                };
            }
        };

        match resp.status {
            // Note there is no need to check warning_partial_completion on
            // successful payments. If the payment partially completes, the
            // first thing to do is claim the payment from the sender, because
            // we've basically prepaid.
            PayStatus::COMPLETE => return Ok(resp.payment_preimage.to_vec()),
            PayStatus::PENDING => {
                warn!("payment is pending after pay returned");
                return match self.wait_payment(req.payment_hash, Tracked(w))? {
                    Some(preimage) => Ok(preimage),
                    None => Err(anyhow!("payment failed")),
                };
            }
            PayStatus::FAILED => {
                if let Some(warning) = resp.warning_partial_completion {
                    warn!("pay returned partial completion: {}", warning);
                    return match self.wait_payment(req.payment_hash, Tracked(w))? {
                        Some(preimage) => Ok(preimage),
                        None => Err(anyhow!("payment failed")),
                    };
                };
                return Err(anyhow!("payment failed"));
            }
        }
    }
}
} // verus!
fn main() {}
