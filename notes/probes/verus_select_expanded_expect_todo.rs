use vstd::prelude::*;
verus! {

pub struct World { pub resolved: bool, pub timer_fired: bool, pub ready_seen: bool }

macro_rules! debug { ($($t:tt)*) => {} }
macro_rules! error { ($($t:tt)*) => {} }

#[verifier::external_body]
pub fn nondet() -> bool { unimplemented!() }

// environment model of tokio::select!: exactly one branch is chosen nondeterministically,
// its future is run to completion, the others are dropped unpolled.
macro_rules! __select {
    ($p:pat = $e:expr => $b:block $(,)?) => { { let $p = $e; $b } };
    ($p:pat = $e:expr => $b:block $(,)? $($rest:tt)+) => {
        if nondet() { let $p = $e; $b } else { __select!($($rest)+) }
    };
}
pub mod tokio {
    pub(crate) use __select as select;
    pub mod time {
        use super::super::*;
        #[verifier::external_body]
        pub fn sleep(d: u64, Tracked(w): Tracked<&mut World>)
            ensures final(w).timer_fired, final(w).resolved == old(w).resolved, final(w).ready_seen == old(w).ready_seen
        { unimplemented!() }
    }
}

pub struct Rx { pub id: int }
impl Rx {
    #[verifier::external_body]
    pub fn recv(&mut self, Tracked(w): Tracked<&mut World>) -> (r: Option<u8>)
        ensures final(w).resolved == old(w).resolved, final(w).timer_fired == old(w).timer_fired
    { unimplemented!() }
}

#[verifier::external_body]
fn resolve(resp: u8, Tracked(w): Tracked<&mut World>)
    requires !old(w).resolved,
    ensures final(w).resolved, final(w).timer_fired == old(w).timer_fired
{ unimplemented!() }

fn lifecycle(time_left: u64, mut fail_requested: Rx, mut payment_ready: Rx, Tracked(w): Tracked<&mut World>) -> (paid: bool)
    requires !old(w).resolved, !old(w).timer_fired
    ensures !paid ==> final(w).resolved, paid ==> !final(w).timer_fired,
{
    if nondet() {
        let _ = tokio::time::sleep(time_left, Tracked(w));
        {
            debug!("Payment timed out waiting for htlcs.");
            resolve(1, Tracked(w));
            return false;
        }
    } else if nondet() {
        let failure = fail_requested.recv(Tracked(w));
        {
            let failure = match failure {
                Some(failure) => failure,
                None => {
                    error!("fail_requested receiver was closed when it shouldn't be");
                    2
                },
            };

            debug!("Payment fail requested.");
            resolve(failure, Tracked(w));
            return false;
        }
    } else {
        let _ = payment_ready.recv(Tracked(w));
        {
            debug!("Received payment ready.");
        }
    };
    let x: Option<u8> = None;
    true
}

fn t2(x: Option<u8>) -> u8 {
    let y = x.expect("should be there");
    if y == 3 { todo!("now what"); }
    y
}

} // verus!
fn main() {}
