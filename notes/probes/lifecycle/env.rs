use vstd::prelude::*;
use vstd::std_specs::cmp::OrdSpec;
use ::std::sync::Arc;
verus! {

macro_rules! trace { ($($t:tt)*) => { () } }
macro_rules! debug { ($($t:tt)*) => { () } }
macro_rules! warn  { ($($t:tt)*) => { () } }
macro_rules! error { ($($t:tt)*) => { () } }
macro_rules! todo  { ($($t:tt)*) => { unreachable_todo() } }

#[verifier::external_body]
pub fn unreachable_todo() -> (r: !)
    requires false,
{ panic!() }

#[verifier::external_body]
pub fn nondet() -> bool { unimplemented!() }

pub assume_specification<T: ::std::cmp::Ord>[::std::cmp::min](a: T, b: T) -> (r: T)
    ensures T::obeys_cmp_spec() ==> r == (if a.cmp_spec(&b) == core::cmp::Ordering::Greater { b } else { a });
pub assume_specification<T, E>[::std::result::Result::<T, E>::unwrap_or](s: ::std::result::Result<T, E>, d: T) -> (r: T)
    ensures r == (match s { Ok(v) => v, Err(_) => d });

// ---------- ghost world ----------
pub enum StoreAbs { Absent, Free, Pending, Succeeded { preimage: Seq<u8> } }
pub struct World {
    pub store: StoreAbs,
    pub pending: nat,
    pub complete: Option<Seq<u8>>,
    pub resolved: bool,
    pub received: int,
    pub min_expiry: int,
    pub height: int,
    pub amount: int,
}
pub open spec fn live(w: World) -> bool { w.pending > 0 || w.complete is Some }
pub open spec fn inv(w: World) -> bool {
    (live(w) ==> (w.store is Pending || w.store is Succeeded))
}
// rely: node parts may resolve; nothing new starts; store untouched (Exclusive phase)
pub open spec fn rely(a: World, b: World) -> bool {
    &&& b.store == a.store
    &&& b.pending <= a.pending
    &&& (a.complete is Some ==> b.complete == a.complete)
    &&& (!live(a) ==> !live(b))
    &&& b.resolved == a.resolved
    &&& b.received >= a.received
    &&& b.min_expiry <= a.min_expiry
    &&& b.height >= a.height
    &&& b.amount == a.amount
}

// ---------- error / time ----------
#[derive(Debug)]
pub struct AnyErr { _p: u8 }
pub mod anyhow { pub type Error = super::AnyErr; pub type Result<T> = std::result::Result<T, super::AnyErr>; }
pub use anyhow::Result;
pub trait Context<T> { fn context(self, c: &'static str) -> Result<T>; }



pub use ::std::time::Duration;

pub uninterp spec fn dur_ms(d: Duration) -> nat;
pub assume_specification[::std::time::Duration::from_secs](s: u64) -> (r: Duration)
    ensures dur_ms(r) == s * 1000;
pub assume_specification[::std::time::Duration::saturating_sub](a: Duration, b: Duration) -> (r: Duration)
    ensures dur_ms(r) == (if dur_ms(a) >= dur_ms(b) { dur_ms(a) - dur_ms(b) } else { 0 });
pub assume_specification[::std::time::Duration::is_zero](a: &Duration) -> (r: bool)
    ensures r == (dur_ms(*a) == 0);
// env shadows std::time (clock model); everything else of std is re-exported unchanged
pub mod std {
    pub use ::std::cmp;
    pub use ::std::sync;
    pub use ::std::result;
    pub use ::std::option;
    pub use ::std::marker;
    pub mod time {
        use vstd::prelude::*;
        pub use ::std::time::Duration;
        pub struct SystemTime { pub t: u64 }
        #[derive(Debug)]
        pub struct SystemTimeError { pub p: u8 }
        pub const UNIX_EPOCH: SystemTime = SystemTime { t: 0 };
        impl SystemTime {
            #[verifier::external_body]
            pub fn now() -> SystemTime { unimplemented!() }
            #[verifier::external_body]
            pub fn duration_since(&self, o: SystemTime) -> ::std::result::Result<Duration, SystemTimeError> { unimplemented!() }
        }
    }
}
impl<T> Context<T> for std::result::Result<T, std::time::SystemTimeError> {
    #[verifier::external_body]
    fn context(self, c: &'static str) -> (r: Result<T>) ensures r is Ok == self is Ok { unimplemented!() }
}
// ---------- hashes, invoice ----------
#[derive(Clone, Copy)]
pub struct Hash { pub b: [u8; 32] }
pub struct PublicKey { pub b: [u8; 33] }
pub struct Bolt11Invoice { _p: u8 }
impl Bolt11Invoice {
    pub uninterp spec fn hash_spec(&self) -> Hash;
    pub uninterp spec fn amount_spec(&self) -> Option<u64>;
    #[verifier::external_body]
    pub fn payment_hash(&self) -> (r: &Hash) ensures *r == self.hash_spec() { unimplemented!() }
    #[verifier::external_body]
    pub fn amount_milli_satoshis(&self) -> (r: Option<u64>) ensures r == self.amount_spec() { unimplemented!() }
}

// ---------- tokio ----------
pub mod mpsc {
    use super::*;
    pub struct Receiver<T> { pub p: core::marker::PhantomData<T> }
    impl<T> Receiver<T> {
        #[verifier::external_body]
        pub fn recv(&mut self, Tracked(w): Tracked<&mut World>) -> (r: Option<T>)
            ensures rely(*old(w), *final(w))
        { unimplemented!() }
    }
}
pub mod tokio { pub mod time {
    use super::super::*;
    #[verifier::external_body]
    pub fn sleep(d: Duration, Tracked(w): Tracked<&mut World>)
        ensures rely(*old(w), *final(w))
    { unimplemented!() }
} }

pub struct HashMap<K, V> { pub p: core::marker::PhantomData<(K, V)> }
pub struct Mutex<T> { pub p: core::marker::PhantomData<T> }

} // verus!
