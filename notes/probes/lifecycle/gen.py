import re,sys
src=open('/repo/src/htlc_manager.rs').read().split('\n')
# payment_lifecycle: lines 404..661 ; resolve: 665..675 (1-based)
life='\n'.join(src[403:661])
res='\n'.join(src[664:675])
def e2(t):
    t=re.sub(r'\basync\s+fn\b','fn',t)
    t=re.sub(r'\s*\.await','',t)
    return t
GHOST=['fetch_payment_info','wait_payment','mark_succeeded','mark_failed','add_payment_attempt','pay','notify_payment_failed','current_height']
def e4(t):
    # append Tracked(w) to calls of listed methods and to resolve(...)/lock()/recv()/sleep()
    out=[];i=0
    names=GHOST+['resolve','lock','recv','sleep']
    pat=re.compile(r'(\.|\b)('+'|'.join(names)+r')\s*\(')
    while True:
        m=pat.search(t,i)
        if not m: out.append(t[i:]);break
        # skip fn definitions
        pre=t[max(0,m.start()-4):m.start()]
        j=m.end();depth=1
        while depth>0:
            c=t[j]
            if c=='(':depth+=1
            elif c==')':depth-=1
            j+=1
        inner=t[m.end():j-1]
        if pre.endswith('fn ') :
            out.append(t[i:j]);i=j;continue
        sep='' if inner.strip()=='' else (',' if not inner.rstrip().endswith(',') else '')
        out.append(t[i:j-1]+sep+' Tracked(w))');i=j
    return ''.join(out)
def e3(t):
    a=t.index('tokio::select! {')
    # find matching brace
    j=t.index('{',a);depth=0;k=j
    while True:
        if t[k]=='{':depth+=1
        elif t[k]=='}':
            depth-=1
            if depth==0:break
        k+=1
    body=t[j+1:k]
    # split arms: pattern = expr => { block }
    arms=[];p=0
    while True:
        m=re.compile(r'\s*([^=]+?)\s*=\s*(.+?)\s*=>\s*\{',re.S).match(body,p)
        if not m:break
        b=m.end()-1;depth=0;q=b
        while True:
            if body[q]=='{':depth+=1
            elif body[q]=='}':
                depth-=1
                if depth==0:break
            q+=1
        arms.append((m.group(1),m.group(2),body[b:q+1]))
        p=q+1
        while p<len(body) and body[p] in ' ,\n':p+=1
    s=''
    for n,(pt,ex,bl) in enumerate(arms):
        head='if nondet() ' if n<len(arms)-1 else ''
        s+=('' if n==0 else ' else ')+head+'{ let '+pt+' = '+ex+'; '+bl+' }'
    return t[:a]+s+t[k+1:]
life=e4(e3(e2(life)))
res=e4(e2(res))
life=re.sub(r'#\[instrument\([^\]]*\)\]\n','',life,flags=re.S)
open('life.txt','w').write(life)
open('res.txt','w').write(res)
