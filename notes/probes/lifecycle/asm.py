import re
def lines(p,a,b): return '\n'.join(open(p).read().split('\n')[a-1:b])
def strip_attrs(t):
    t=re.sub(r'^\s*#\[(derive|serde|instrument|cfg_attr|async_trait)[^\n]*\n','',t,flags=re.M)
    t=re.sub(r'^\s*///[^\n]*\n','',t,flags=re.M)
    return t
R='/repo/src/'
params=strip_attrs(lines(R+'htlc_manager.rs',40,75))
payreq=strip_attrs(lines(R+'payment_provider.rs',222,235))
store_state=strip_attrs(lines(R+'store.rs',44,53))
attempt=strip_attrs(lines(R+'store.rs',86,90))
notify=strip_attrs(lines(R+'email.rs',12,17))
resp_enum=strip_attrs(lines(R+'messages.rs',33,52))
resp_impl=strip_attrs(lines(R+'messages.rs',54,76))
policy=strip_attrs(lines(R+'messages.rs',133,138))
tinfo=strip_attrs(lines(R+'messages.rs',171,178))
resp_impl=resp_impl.replace('pub fn resolve(payment_key: Vec<u8>) -> Self {','pub fn resolve(payment_key: Vec<u8>) -> (r: Self) ensures r == (HtlcAcceptedResponse::Resolve{payment_key}) {')
resp_impl=resp_impl.replace('pub fn temporary_node_failure() -> Self {','pub fn temporary_node_failure() -> (r: Self) ensures r is Fail {')
resp_impl=resp_impl.replace('pub fn temporary_trampoline_failure() -> Self {','pub fn temporary_trampoline_failure() -> (r: Self) ensures r is Fail {')
resp_impl=resp_impl.replace('pub fn trampoline_fee_or_expiry_insufficient(policy: TrampolineRoutingPolicy) -> Self {','pub fn trampoline_fee_or_expiry_insufficient(policy: TrampolineRoutingPolicy) -> (r: Self) ensures r is Fail {')
life=open('life.txt').read()
life=life.replace('''    mut fail_requested: mpsc::Receiver<HtlcAcceptedResponse>,
) where''','''    mut fail_requested: mpsc::Receiver<HtlcAcceptedResponse>,
    Tracked(w): Tracked<&mut World>,
) where''')
life=life.replace('''    S: Datastore,
{''','''    S: Datastore,
    requires inv(*old(w)), !old(w).resolved, old(w).amount == trampoline.amount_msat,
    ensures final(w).resolved,
{''',1)
res=open('res.txt').read()
res=res.replace('''    resp: HtlcAcceptedResponse,
) {''','''    resp: HtlcAcceptedResponse,
    Tracked(w): Tracked<&mut World>,
)
    requires !old(w).resolved,
        resp is Fail ==> !live(*old(w)),
        resp is Resolve ==> (old(w).complete == Some(resp->payment_key@) || old(w).store == (StoreAbs::Succeeded{preimage: resp->payment_key@})),
        !(resp is Continue),
    ensures final(w).resolved, final(w).store == old(w).store, final(w).pending <= old(w).pending, (old(w).complete is Some ==> final(w).complete == old(w).complete), (!live(*old(w)) ==> !live(*final(w))),
{''')
env=open('env.rs').read()
env=env[:env.rindex('} // verus!')]
body=f'''
// ===== real declarations (messages.rs) =====
pub mod messages {{
use super::*;
{resp_enum}
{policy}
{tinfo}
pub enum HtlcFailReason {{ TemporaryNodeFailure, TemporaryTrampolineFailure, TrampolineFeeOrExpiryInsufficient(TrampolineRoutingPolicy) }}
impl HtlcFailReason {{ #[verifier::external_body] pub fn encode(&self) -> Vec<u8> {{ unimplemented!() }} }}
{resp_impl}
}}
pub use messages::*;
pub mod store {{
use super::*;
{store_state}
{attempt}
pub trait Datastore {{
    fn add_payment_attempt(&self, trampoline: &TrampolineInfo, Tracked(w): Tracked<&mut World>) -> (r: Result<AttemptId>)
        requires !live(*old(w)), inv(*old(w)),
        ensures r is Ok ==> final(w).store is Pending,
            !live(*final(w)), final(w).resolved == old(w).resolved, final(w).received >= old(w).received, final(w).min_expiry <= old(w).min_expiry, final(w).height >= old(w).height, final(w).amount == old(w).amount;
    fn fetch_payment_info(&self, trampoline: &TrampolineInfo, Tracked(w): Tracked<&mut World>) -> (r: Result<PaymentState>)
        ensures rely(*old(w), *final(w)),
            match r {{
                Ok(PaymentState::Free) => final(w).store is Free || final(w).store is Absent,
                Ok(PaymentState::Pending{{..}}) => final(w).store is Pending,
                Ok(PaymentState::Succeeded{{preimage}}) => final(w).store == (StoreAbs::Succeeded{{preimage: preimage@}}),
                Err(_) => true,
            }};
    fn mark_failed(&self, trampoline: &TrampolineInfo, attempt_id: &AttemptId, Tracked(w): Tracked<&mut World>) -> (r: Result<()>)
        requires !live(*old(w)),
        ensures r is Ok ==> final(w).store is Free,
            r is Err ==> final(w).store == old(w).store,
            !live(*final(w)), final(w).resolved == old(w).resolved, final(w).received >= old(w).received, final(w).min_expiry <= old(w).min_expiry, final(w).height >= old(w).height, final(w).amount == old(w).amount;
    fn mark_succeeded(&self, trampoline: &TrampolineInfo, attempt_id: &AttemptId, preimage: Vec<u8>, Tracked(w): Tracked<&mut World>) -> (r: Result<()>)
        requires old(w).complete == Some(preimage@),
        ensures final(w).resolved == old(w).resolved;
}}
}}
pub use store::{{Datastore}};
pub mod payment_provider {{
use super::*;
pub mod sha256 {{ pub use super::super::Hash; }}
{payreq}
pub trait PaymentProvider {{
    fn pay(&self, req: PaymentRequest, Tracked(w): Tracked<&mut World>) -> (r: Result<Vec<u8>>)
        requires
            old(w).store is Pending,            // C08 write-ahead
            !live(*old(w)),                     // C05
            !old(w).resolved,                   // C03 counted htlcs still held
            req.max_fee_msat as int <= (if old(w).received >= old(w).amount {{ old(w).received - old(w).amount }} else {{ 0 }}),   // C03 budget
        ensures
            r is Ok ==> final(w).complete == Some(r->Ok_0@),
            r is Err ==> !live(*final(w)),
            final(w).resolved == old(w).resolved;
    fn wait_payment(&self, payment_hash: sha256::Hash, Tracked(w): Tracked<&mut World>) -> (r: Result<Option<Vec<u8>>>)
        ensures rely(*old(w), *final(w)),
            (r is Ok && r->Ok_0 is Some) ==> final(w).complete == Some(r->Ok_0->Some_0@),
            (r is Ok && r->Ok_0 is None) ==> !live(*final(w));
}}
pub uninterp spec fn pay_amount(req: PaymentRequest) -> int;
}}
pub use payment_provider::*;
pub mod block_watcher {{ use super::*;
pub trait BlockProvider {{ fn current_height(&self, Tracked(w): Tracked<&mut World>) -> (r: u32) ensures rely(*old(w), *final(w)), r as int <= final(w).height; }}
}}
pub use block_watcher::BlockProvider;
pub mod email {{ use super::*; use super::sha256_mod as sha256;
{notify}
pub trait NotificationService {{ fn notify_payment_failed(&self, req: NotifyPaymentFailedRequest, Tracked(w): Tracked<&mut World>) ensures final(w).resolved == old(w).resolved; }}
}}
pub mod sha256_mod {{ pub use super::Hash; }}
pub use email::*;

// table model for this unit
pub struct PaymentState {{ pub amount_received_msat: u64, pub cltv_expiry: u32 }}
impl PaymentState {{
    #[verifier::external_body]
    fn resolve(&mut self, resp: HtlcAcceptedResponse, Tracked(w): Tracked<&mut World>)
        requires !old(w).resolved,
        ensures final(w).resolved, final(w).store == old(w).store, final(w).pending == old(w).pending, final(w).complete == old(w).complete,
    {{ unimplemented!() }}
}}
pub struct Guard {{ pub ghost snap: World }}
impl Mutex<HashMap<Hash, PaymentState>> {{
    #[verifier::external_body]
    pub fn lock(&self, Tracked(w): Tracked<&mut World>) -> (g: Guard)
        ensures rely(*old(w), *final(w)), g.snap == *final(w)
    {{ unimplemented!() }}
}}
impl Guard {{
    #[verifier::external_body]
    pub fn get(&self, k: &Hash) -> (r: Option<&PaymentState>)
        ensures !self.snap.resolved ==> (r is Some && r->0.amount_received_msat as int == self.snap.received && r->0.cltv_expiry as int == self.snap.min_expiry)
    {{ unimplemented!() }}
    #[verifier::external_body]
    pub fn remove(&mut self, k: &Hash) -> (r: Option<PaymentState>)
        ensures !old(self).snap.resolved ==> r is Some, final(self).snap == old(self).snap
    {{ unimplemented!() }}
}}

// ===== real text: htlc_manager.rs (params struct, payment_lifecycle, resolve) =====
{params}

{life}

{res}
'''
out=env+body+"\n} // verus!\nfn main() {}\n"
open('L.rs','w').write(out)
