use vstd::prelude::*;
use std::sync::Arc;
verus! {

pub struct World { pub store_pending: bool, pub live: bool, pub resolved: bool }

pub struct AnyErr { _p: u8 }
pub type Result<T> = std::result::Result<T, AnyErr>;

macro_rules! error { ($($t:tt)*) => {} }
macro_rules! trace { ($($t:tt)*) => {} }

pub trait Datastore {
    fn add_payment_attempt(&self, t: &u64, Tracked(w): Tracked<&mut World>) -> (r: Result<u64>)
        ensures r is Ok ==> final(w).store_pending, final(w).live == old(w).live, final(w).resolved == old(w).resolved;
}
pub trait PaymentProvider {
    fn pay(&self, req: u64, Tracked(w): Tracked<&mut World>) -> (r: Result<Vec<u8>>)
        requires old(w).store_pending, !old(w).live,
        ensures final(w).resolved == old(w).resolved, r is Err ==> !final(w).live;
}

pub struct Params<P: PaymentProvider, S: Datastore> {
    pub payment_provider: Arc<P>,
    pub store: Arc<S>,
    pub cltv_delta: u16,
}

#[verifier::external_body]
fn resolve(resp: u8, Tracked(w): Tracked<&mut World>)
    requires !old(w).resolved, resp == 1 ==> !old(w).live,
    ensures final(w).resolved, 
{ unimplemented!() }

fn lifecycle<P, S>(params: Arc<Params<P, S>>, trampoline: u64, Tracked(w): Tracked<&mut World>)
where P: PaymentProvider, S: Datastore,
    requires !old(w).resolved, !old(w).live,
    ensures final(w).resolved,
{
    let attempt_id = match params.store.add_payment_attempt(&trampoline, Tracked(w)) {
        Ok(attempt_id) => attempt_id,
        Err(e) => {
            error!("Failed to insert payment attempt in data store: {:?}", e);
            resolve(1, Tracked(w));
            return;
        }
    };
    trace!("about to pay.");
    let pay_result = params.payment_provider.pay(trampoline, Tracked(w));
    match pay_result {
        Ok(preimage) => {
            resolve(2, Tracked(w));
        }
        Err(e) => {
            resolve(1, Tracked(w));
        }
    }
}

} // verus!
fn main() {}
