use vstd::prelude::*;
verus! {
#[derive(Debug)]
pub struct AnyErr { _p: u8 }
pub type Error = AnyErr;
pub mod io { pub struct Error { pub p: u8 } }
impl From<io::Error> for AnyErr { #[verifier::external_body] fn from(e: io::Error) -> AnyErr { unimplemented!() } }

pub struct BytesMut { pub data: Vec<u8> }
impl BytesMut {
    #[verifier::external_body]
    pub fn split_to(&mut self, at: usize) -> (r: BytesMut)
        requires at <= old(self).data@.len(),
        ensures r.data@ == old(self).data@.subrange(0, at as int), final(self).data@ == old(self).data@.subrange(at as int, old(self).data@.len() as int)
    { unimplemented!() }
    #[verifier::external_body]
    pub fn len(&self) -> (r: usize) ensures r == self.data@.len() { unimplemented!() }
}
impl core::ops::Index<core::ops::RangeTo<usize>> for BytesMut {
    type Output = [u8];
    #[verifier::external_body]
    fn index(&self, r: core::ops::RangeTo<usize>) -> (o: &[u8])
        ensures r.end <= self.data@.len() ==> o@ == self.data@.subrange(0, r.end as int)
    { unimplemented!() }
}
pub open spec fn is_sep(s: Seq<u8>, i: int) -> bool { 0 <= i && i + 1 < s.len() && s[i] == 10u8 && s[i+1] == 10u8 }
// assumed search spec (zip/skip/position chain is outside the verifier's subset)
#[verifier::external_body]
fn find_separator(buf: &mut BytesMut) -> (r: Option<usize>)
    ensures final(buf).data@ == old(buf).data@,
        match r { Some(i) => is_sep(old(buf).data@, i as int) && forall|j: int| 0 <= j < i ==> !is_sep(old(buf).data@, j),
                  None => forall|j: int| !is_sep(old(buf).data@, j) }
{ unimplemented!() }
pub uninterp spec fn utf8_spec(b: Seq<u8>) -> Option<Seq<char>>;
#[verifier::external_body]
fn utf8(buf: &[u8]) -> (r: Result<&str, io::Error>)
    ensures match r { Ok(s) => utf8_spec(buf@) == Some(s@), Err(_) => utf8_spec(buf@) is None }
{ unimplemented!() }

pub struct MultiLineCodec {}
impl MultiLineCodec {
    fn decode(&mut self, buf: &mut BytesMut) -> (r: Result<Option<String>, Error>)
        ensures
            (forall|j: int| !is_sep(old(buf).data@, j)) ==> (r is Ok && r->Ok_0 is None && final(buf).data@ == old(buf).data@),
            (exists|j: int| is_sep(old(buf).data@, j)) ==> !(r is Ok && r->Ok_0 is None),
    {
        if let Some(newline_offset) = find_separator(buf) {
            let line = buf.split_to(newline_offset + 2);
            let line = &line[..line.len() - 2];
            let line = utf8(line)?;
            Ok(Some(line.to_string()))
        } else {
            Ok(None)
        }
    }
}
} // verus!
fn main() {}
