use vstd::prelude::*;
use ::std::sync::Arc;
use vstd::std_specs::iter::IteratorSpec;
verus! {
#[derive(Debug)]
pub struct AnyErr { _p: u8 }
pub type Result<T> = ::std::result::Result<T, AnyErr>;
#[verifier::external_body] pub fn mk_err() -> AnyErr { unimplemented!() }
macro_rules! anyhow { ($($t:tt)*) => { mk_err() } }
pub struct SerdeErr { _p: u8 }
pub struct RpcError { _p: u8 }
impl From<SerdeErr> for AnyErr { #[verifier::external_body] fn from(e: SerdeErr) -> AnyErr { unimplemented!() } }
impl From<RpcError> for AnyErr { #[verifier::external_body] fn from(e: RpcError) -> AnyErr { unimplemented!() } }
pub mod serde_json { use super::*;
    #[verifier::external_body]
    pub fn from_str<T>(s: &str) -> (r: ::std::result::Result<T, SerdeErr>) { unimplemented!() }
}
pub struct Hash { pub b: [u8; 32] }
pub mod sha256 { pub use super::Hash; }
impl Hash { #[verifier::external_body] pub fn encode_hex(&self) -> (r: String) { unimplemented!() } }
pub struct Bolt11Invoice { _p: u8 }
impl Bolt11Invoice { #[verifier::external_body] pub fn payment_hash(&self) -> (r: &Hash) { unimplemented!() } }
pub struct TrampolineInfo { pub bolt11: String, pub invoice: Bolt11Invoice, pub amount_msat: u64 }
pub struct ListdatastoreRequest { pub key: Option<Vec<String>> }
pub struct ListdatastoreDatastore { pub key: Vec<String>, pub generation: Option<u64>, pub hex: Option<String>, pub string: Option<String> }
// env sequence type standing for the dependency's Vec field: inherent, spec'd into_iter().nth()
pub struct EnvVec<T> { pub v: Vec<T> }
pub struct EnvIntoIter<T> { pub rest: Vec<T> }
impl<T> EnvVec<T> {
    #[verifier::external_body]
    pub fn into_iter(self) -> (r: EnvIntoIter<T>) ensures r.rest@ == self.v@ { unimplemented!() }
}
impl<T> EnvIntoIter<T> {
    #[verifier::external_body]
    pub fn nth(&mut self, n: usize) -> (r: Option<T>)
        ensures r == (if n < old(self).rest@.len() { Some(old(self).rest@[n as int]) } else { None::<T> })
    { unimplemented!() }
}
pub struct ListdatastoreResponse { pub datastore: EnvVec<ListdatastoreDatastore> }
pub struct Data { pub x: int }
pub struct Rpc { _p: u8 }
impl Rpc {
    #[verifier::external_body]
    pub fn listdatastore(&self, Tracked(w): Tracked<&mut Data>, request: &ListdatastoreRequest) -> (r: ::std::result::Result<ListdatastoreResponse, RpcError>) { unimplemented!() }
}
pub struct ClnDatastore { rpc: Arc<Rpc> }
pub enum PaymentState {
    Free,
    Pending {
        attempt_id: AttemptId,
        attempt_time_seconds: u64,
    },
    Succeeded {
        preimage: Vec<u8>,
    },
}

impl PaymentState {
    fn from(state: PersistPaymentState, generation: Option<u64>) -> Self {
        match state {
            PersistPaymentState::Free => PaymentState::Free,
            PersistPaymentState::Pending {
                attempt_id,
                attempt_time_seconds,
            } => PaymentState::Pending {
                attempt_id: AttemptId {
                    attempt_id,
                    state_generation: generation.unwrap_or(0),
                },
                attempt_time_seconds,
            },
            PersistPaymentState::Succeeded { preimage } => PaymentState::Succeeded { preimage },
        }
    }
}
enum PersistPaymentState {
    Free,
    Pending {
        attempt_id: String,
        attempt_time_seconds: u64,
    },
    Succeeded {
        preimage: Vec<u8>,
    },
}
pub struct AttemptId {
    pub attempt_id: String,
    pub state_generation: u64,
}
impl ClnDatastore {
    fn fetch_payment_info(&self, trampoline: &TrampolineInfo, Tracked(w): Tracked<&mut Data>) -> (r: Result<PaymentState>)
{
        Ok(
            match self
                .rpc
                .listdatastore(Tracked(w), &ListdatastoreRequest {
                    key: Some(state_key(trampoline.invoice.payment_hash())),
                })?
                .datastore
                .into_iter()
                .nth(0)
            {
                Some(state) => {
                    let des: PersistPaymentState =
                        serde_json::from_str(&state.string.ok_or(anyhow!("state missing"))?)?;
                    PaymentState::from(des, state.generation)
                }
                None => PaymentState::Free,
            },
        )
    }
}
fn state_key(payment_hash: &sha256::Hash) -> Vec<String> {
    vec![
        String::from("trampoline"),
        String::from("payments"),
        payment_hash.encode_hex(),
        String::from("state"),
    ]
}
} // verus!
fn main() {}
