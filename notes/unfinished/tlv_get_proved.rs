// ---- specs/tlv_get_proved.rs: what is PROVED about get / remove (unit tlv_get) ------------------
// remove: the full interface contract of specs/tlv_get.rs (first record of the type removed, all
// others byte for byte and in order).  get: only `Some(e) ==> e is a record of the stream with that
// type`; that it is the FIRST such record and that None means "no such record" stay assumed in
// the callers (vstd's spec of Iterator::find has no first-match / None half and, being a
// provided trait method, cannot be given an assume_specification).
impl SerializedTlvStream {
    pub closed spec fn view_entries(&self) -> Seq<EntryAbs> { entries_view(self.entries@) }
}
pub proof fn lemma_remove_first_at(es: Seq<EntryAbs>, t: u64, i: int)
    requires 0 <= i < es.len(), es[i].typ == t, forall|j: int| 0 <= j < i ==> (#[trigger] es[j]).typ != t
    ensures remove_first(es, t) == es.remove(i)
    decreases es.len()
{
    if i == 0 {
        assert(es.remove(0) =~= es.drop_first());
    } else {
        assert(es[0].typ != t);
        assert forall|j: int| 0 <= j < i - 1 implies (#[trigger] es.drop_first()[j]).typ != t by { assert(es.drop_first()[j] == es[j + 1]); }
        lemma_remove_first_at(es.drop_first(), t, i - 1);
        assert(seq![es[0]] + es.drop_first().remove(i - 1) =~= es.remove(i));
    }
}
pub proof fn lemma_remove_first_none(es: Seq<EntryAbs>, t: u64)
    requires forall|j: int| 0 <= j < es.len() ==> (#[trigger] es[j]).typ != t
    ensures remove_first(es, t) == es
    decreases es.len()
{
    if es.len() > 0 {
        assert(es[0].typ != t);
        assert forall|j: int| 0 <= j < es.drop_first().len() implies (#[trigger] es.drop_first()[j]).typ != t by { assert(es.drop_first()[j] == es[j + 1]); }
        lemma_remove_first_none(es.drop_first(), t);
        assert(seq![es[0]] + es.drop_first() =~= es);
    }
}

//@ fn tlv::SerializedTlvStream::get
//@ returns r
//@ implicit [C06,C13]
//@ ensures#some_is_a_record_of_that_type [C10,C13]
      r is Some ==> (r->0.typ == typ
          && exists|i: int| 0 <= i < self.view_entries().len() && (#[trigger] self.view_entries()[i]).typ == typ && self.view_entries()[i].value == r->0.value@)
//@ closure 0
//@ cparams e: &&TlvEntry
//@ creturns b: bool
//@ ensures#pred_is_type_equality
      b == (e.typ == typ)
//@ end

//@ fn tlv::SerializedTlvStream::remove
//@ implicit [C06,C13]
//@ ensures#removes_only_the_first_record_of_that_type [C13]
      final(self).view_entries() == remove_first(old(self).view_entries(), typ)
//@ closure 0
//@ cparams e: &TlvEntry
//@ creturns b: bool
//@ ensures#pred_is_type_equality
      b == (e.typ == typ)
//@ ghost body_begin
      let ghost es0 = self.entries@;
//@ proof before_stmt /^self\.entries\.remove\(position\);/
      assert forall|j: int| 0 <= j < position implies (#[trigger] entries_view(es0)[j]).typ != typ by { assert(es0[j].typ != typ); }
      lemma_remove_first_at(entries_view(es0), typ, position as int);
      assert(entries_view(es0.remove(position as int)) =~= entries_view(es0).remove(position as int));
//@ end
