// ---- env/slice_iter.rs: std semantics of slice::Iter::position (first index whose element
// satisfies the predicate; None if none does), stated over vstd's prophetic `remaining()` -------
pub assume_specification<'a, T, P: FnMut(&'a T) -> bool>[<::std::slice::Iter<'a, T> as ::std::iter::Iterator>::position](it: &mut ::std::slice::Iter<'a, T>, pred: P) -> (r: Option<usize>)
    where ::std::slice::Iter<'a, T>: Sized,
    requires forall|x: &'a T| call_requires(pred, (x,)),
    ensures match r {
        Some(i) => (i as int) < old(it).remaining().len()
            && call_ensures(pred, (old(it).remaining()[i as int],), true)
            && forall|j: int| 0 <= j < i ==> call_ensures(pred, (#[trigger] old(it).remaining()[j],), false),
        None => forall|j: int| 0 <= j < old(it).remaining().len() ==> call_ensures(pred, (#[trigger] old(it).remaining()[j],), false),
    };
