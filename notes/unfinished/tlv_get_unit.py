"""unit tlv_get: SerializedTlvStream::{get, remove} (src/tlv.rs) verbatim."""
from vlib.core import Src


def build(u):
    t = Src.get("tlv.rs")
    u.raw("use vstd::prelude::*;\nuse vstd::std_specs::iter::IteratorSpec;\nverus! {\nglobal size_of usize == 8;\n")
    u.env("prelude.rs")
    u.canary_decls()
    u.env("slice_iter.rs")
    u.raw("pub open spec fn be_val(s: Seq<u8>) -> nat decreases s.len() { if s.len() == 0 { 0 } else { be_val(s.drop_last()) * 256 + s.last() as nat } }\n")
    u.spec("tlv_spec.rs", shared=True)
    u.raw("pub mod tlv {\nuse super::*;\n")
    u.item(t, "TlvEntry", "struct")
    u.raw("impl Clone for TlvEntry {\n #[verifier::external_body]\n fn clone(&self) -> (r: Self) ensures r == *self { unimplemented!() }\n}\n")
    u.item(t, "SerializedTlvStream", "struct")
    u.spec("tlv_get_proved.rs")
    u.impl(t, "SerializedTlvStream", ["get", "remove"], "tlv")
    u.raw("}\n} // verus!\nfn main() {}\n")
