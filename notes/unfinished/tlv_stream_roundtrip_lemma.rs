// attempted, hits rlimit (not part of any check): parse(enc_all(es)) == Some(es)
/// C18: encoding then decoding reproduces the records; hence, for every byte string that IS an
/// encoding (a valid, minimally encoded TLV stream), decoding then encoding reproduces the bytes
#[verifier::spinoff_prover]
#[verifier::rlimit(60)]
pub proof fn lemma_parse_of_encoding(es: Seq<EntryAbs>)
    requires forall|i: int| 0 <= i < es.len() ==> (#[trigger] es[i]).value.len() <= u64::MAX
    ensures parse(enc_all(es)) == Some(es)
    decreases es.len()
{
    if es.len() == 0 {
        assert(enc_all(es) =~= Seq::<u8>::empty());
    } else {
        lemma_enc_all_front(es);
        let e = es[0];
        let tail = enc_all(es.drop_first());
        let s = enc_all(es);
        let l = e.value.len() as u64;
        let n1 = cs_enc(e.typ).len() as int;
        let n2 = cs_enc(l).len() as int;
        assert(n1 >= 1 && n2 >= 1);
        assert(s =~= cs_enc(e.typ) + (cs_enc(l) + e.value + tail));
        assert(cs_dec(s) == Some((e.typ, n1 as nat))) by {
            lemma_cs_roundtrip(e.typ, cs_enc(l) + e.value + tail);
        }
        let s1 = s.skip(n1);
        assert(s1 =~= cs_enc(l) + (e.value + tail));
        assert(cs_dec(s1) == Some((l, n2 as nat))) by {
            lemma_cs_roundtrip(l, e.value + tail);
        }
        let rest = s1.skip(n2);
        assert(rest =~= e.value + tail);
        assert(rest.len() >= l);
        assert(rest.take(l as int) =~= e.value);
        assert(rest.skip(l as int) =~= tail);
        assert forall|i: int| 0 <= i < es.drop_first().len() implies (#[trigger] es.drop_first()[i]).value.len() <= u64::MAX by {
            assert(es.drop_first()[i] == es[i + 1]);
        }
        lemma_parse_of_encoding(es.drop_first());
        assert(s.len() >= 2);
        assert(parse(tail) == Some(es.drop_first()));
        assert(seq![EntryAbs { typ: e.typ, value: e.value }] + es.drop_first() =~= es);
        assert(parse(s) == Some(seq![EntryAbs { typ: e.typ, value: rest.take(l as int) }] + es.drop_first()));
    }
}
pub proof fn lemma_decode_then_encode(s: Seq<u8>, es: Seq<EntryAbs>)
    requires s == enc_all(es), forall|i: int| 0 <= i < es.len() ==> (#[trigger] es[i]).value.len() <= u64::MAX
    ensures parse(s) is Some && enc_all(parse(s)->0) == s
{
    lemma_parse_of_encoding(es);
}
