// ---- specs/provider.rs: PayPaymentProvider (src/payment_provider.rs) ------------------------------
impl<R: ClnRpc> PayPaymentProvider<R> {
    pub closed spec fn retry_for_view(&self) -> u16 { self.retry_for }
    pub closed spec fn xpay_view(&self) -> bool { self.xpay }
}
//@ fn payment_provider::PayPaymentProvider::new
//@ returns r
//@ implicit [C06,C19]
//@ ensures#retry_time_capped [C19]
//    the payment retry time is the configured one, capped at 65535 s
      r.retry_for_view() as nat == (if dur_ns(payment_timeout) / 1_000_000_000 <= 65535 { dur_ns(payment_timeout) / 1_000_000_000 } else { 65535 })
      && r.xpay_view() == xpay
//@ end

//@ fn payment_provider::PayPaymentProvider::pay
//@ ghostparam Tracked(w): Tracked<&mut World>
//@ implicit [C06,C16]
//@ end
//@ fn payment_provider::PayPaymentProvider::wait_payment
//@ ghostparam Tracked(w): Tracked<&mut World>
//@ implicit [C06,C15]
//@ end
