// ---- specs/store.rs: ClnDatastore (src/store.rs) against CLN datastore semantics -----------------
// Emitted inside `mod store`.  The interface clauses the four methods must establish are in
// specs/iface.rs (the same text payment_lifecycle is checked against as a caller).

use store_axioms::persist_abs;
mod store_axioms {
use super::*;
pub(super) open spec fn persist_abs(p: PersistPaymentState) -> StoreAbs {
    match p {
        PersistPaymentState::Free => StoreAbs::Free,
        PersistPaymentState::Pending { attempt_id, attempt_time_seconds } =>
            StoreAbs::Pending { attempt: attempt_id@, time: attempt_time_seconds },
        PersistPaymentState::Succeeded { preimage } => StoreAbs::Succeeded { preimage: preimage@ },
    }
}
// serde round trip of the state record (assumed)
pub(super) broadcast axiom fn axiom_ser_state(p: PersistPaymentState)
    ensures #[trigger] de_state(serde_json::ser(p)) == persist_abs(p);
pub(super) broadcast axiom fn axiom_de_state(s: Seq<char>)
    ensures match #[trigger] serde_json::de::<PersistPaymentState>(s) {
        Some(p) => de_state(s) == persist_abs(p),
        None => de_state(s) is Garbage,
    };

}
//@ fn store::state_key
//@ returns r
//@ implicit [C06,C14]
//@ ensures#state_key_of_this_hash [C14,C08,C01,C05,C09]
      key_view(r) =~= state_key_spec(*payment_hash)
//@ end

//@ fn store::attempt_key
//@ returns r
//@ implicit [C06,C14]
//@ ensures#attempt_key_of_this_hash [C14,C01,C05,C09]
      key_view(r) =~= attempt_key_spec(*payment_hash, attempt_id@)
//@ end

//@ fn store::PaymentState::from
//@ returns r
//@ implicit [C06]
//@ ensures#conversion [C01,C02,C05,C09,C08]
      match r {
          PaymentState::Free => persist_abs(state) is Free,
          PaymentState::Pending { attempt_id, attempt_time_seconds } =>
              persist_abs(state) == (StoreAbs::Pending { attempt: attempt_id.attempt_id@, time: attempt_time_seconds })
              && attempt_id.state_generation == (match generation { Some(g) => g, None => 0 }),
          PaymentState::Succeeded { preimage } => persist_abs(state) == (StoreAbs::Succeeded { preimage: preimage@ }),
      }
//@ end

//@ fn store::ClnDatastore::add_payment_attempt
//@ ghostparam Tracked(w): Tracked<&mut World>
//@ implicit [C06,C08]
//@ end
//@ fn store::ClnDatastore::fetch_payment_info
//@ ghostparam Tracked(w): Tracked<&mut World>
//@ implicit [C06]
//@ end
//@ fn store::ClnDatastore::mark_failed
//@ ghostparam Tracked(w): Tracked<&mut World>
//@ implicit [C06,C08]
//@ end
//@ fn store::ClnDatastore::mark_succeeded
//@ ghostparam Tracked(w): Tracked<&mut World>
//@ implicit [C06,C08]
//@ end
