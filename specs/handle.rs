// ---- specs/handle.rs: classification of an htlc_accepted request (src/htlc_manager.rs) ---------
pub open spec fn tlv_amount_of(md: Seq<EntryAbs>) -> Option<u64> {
    match first_of(md, 33003) {
        None => None,
        Some(e) => if e.value.len() <= 8 { Some(be_val(e.value) as u64) } else { None },
    }
}
/// the payment-metadata records of a request (None: no metadata / undecodable)
pub open spec fn md_of(req: HtlcAcceptedRequest) -> Option<Seq<EntryAbs>> {
    match first_of(req.onion.payload.view_entries(), 16) { None => None, Some(md) => parse(md.value) }
}
/// C10 / C01: what a request must satisfy to be treated as a trampoline payment with info `t`
// the metadata carries an invoice that parses ...
pub open spec fn t_invoice_from_metadata(req: HtlcAcceptedRequest, t: TrampolineInfo) -> bool {
    md_of(req) is Some && first_of(md_of(req)->0, 33001) is Some
    && utf8_spec(first_of(md_of(req)->0, 33001)->0.value) == Some(t.bolt11@)
    && parse_any::<Bolt11Invoice>(t.bolt11@) == Some(t.invoice)
}
// amount: the invoice's when present (a well-formed amount field must agree), otherwise exactly
// the sender-declared amount
pub open spec fn t_amount_rule(req: HtlcAcceptedRequest, t: TrampolineInfo) -> bool {
    md_of(req) is Some && match t.invoice.amount_spec() {
        Some(a) => t.amount_msat == a && (tlv_amount_of(md_of(req)->0) is Some ==> tlv_amount_of(md_of(req)->0)->0 == a),
        None => tlv_amount_of(md_of(req)->0) == Some(t.amount_msat),
    }
}
pub open spec fn tinfo_ok(policy: TrampolineRoutingPolicy, req: HtlcAcceptedRequest, t: TrampolineInfo) -> bool {
    &&& t_invoice_from_metadata(req, t)
    &&& t.invoice.sig_ok_spec()                                   // valid signature
    &&& t.invoice.hash_spec().b@ == req.htlc.payment_hash@        // same payment hash as the HTLC (C01)
    &&& t.payee == t.invoice.payee_spec()                         // payee = key the signature verifies against
    &&& t.routing_policy == policy
    &&& t_amount_rule(req, t)
}
pub open spec fn last_hop_is(h: RouteHint, k: PublicKey) -> bool { h.0@.len() > 0 && h.0@.last().src_node_id == k }
pub open spec fn has_self_hint(inv: Bolt11Invoice, k: PublicKey) -> bool {
    exists|i: int| 0 <= i < inv.route_hints_spec().len() && last_hop_is(#[trigger] inv.route_hints_spec()[i], k)
}
/// the rewritten payload of a `continue`: absent, or the input records minus the payment-metadata
/// record, every other record byte for byte and in order (C13)
pub open spec fn continue_untouched(req: HtlcAcceptedRequest, r: HtlcAcceptedResponse) -> bool {
    r is Continue && (r->payload is None
        || (r->payload is Some && r->payload->0@ == enc_all(remove_first(req.onion.payload.view_entries(), 16))))
}

//@ fn htlc_manager::HtlcManager::extract_trampoline_info
//@ returns r
//@ implicit [C06,C10]
//@ ensures#invoice_comes_from_the_metadata_and_parses [C10,C13]
      (r is Ok && r->Ok_0 is Some) ==> t_invoice_from_metadata(*req, r->Ok_0->Some_0)
//@ ensures#signature_valid [C10,C13]
      (r is Ok && r->Ok_0 is Some) ==> r->Ok_0->Some_0.invoice.sig_ok_spec()
//@ ensures#invoice_hash_equals_htlc_hash [C10,C01,C13,C14]
      (r is Ok && r->Ok_0 is Some) ==> r->Ok_0->Some_0.invoice.hash_spec().b@ == req.htlc.payment_hash@
//@ ensures#payee_is_the_signing_key [C10,C13]
      (r is Ok && r->Ok_0 is Some) ==> r->Ok_0->Some_0.payee == r->Ok_0->Some_0.invoice.payee_spec()
//@ ensures#policy_is_the_configured_one [C10,C12]
      (r is Ok && r->Ok_0 is Some) ==> r->Ok_0->Some_0.routing_policy == self.params.routing_policy
//@ ensures#amount_unambiguous [C10,C03,C13,C18]
      (r is Ok && r->Ok_0 is Some) ==> t_amount_rule(*req, r->Ok_0->Some_0)
//@ end

//@ fn htlc_manager::default_response
//@ returns r
//@ implicit [C06,C13]
//@ ensures#continue_and_only_metadata_removed [C13]
      continue_untouched(*req, r)
//@ end

//@ fn htlc_manager::HtlcManager::trampoline_fee_or_expiry_insufficient
//@ returns r
//@ implicit [C06,C12]
//@ ensures#carries_the_configured_policy [C12]
      r == (HtlcAcceptedResponse::Fail { failure_message: r->failure_message }) && r is Fail
      && r->failure_message@ == encode_spec(crate::messages::HtlcFailReason::TrampolineFeeOrExpiryInsufficient(self.params.routing_policy))
//@ end

//@ fn htlc_manager::HtlcManager::check_htlc
//@ returns r
//@ implicit [C06,C13,C10]
//@ ensures#trampoline_only_for_ok_info [C10,C01,C13,C14]
      r is Trampoline ==> (req.onion.short_channel_id is None
          && tinfo_ok(self.params.routing_policy, *req, *r->Trampoline_0)
          && (has_self_hint(r->Trampoline_0.invoice, self.params.local_pubkey) ==> self.params.allow_self_route_hints))
//@ ensures#otherwise_continue_untouched_or_self_hint_failure [C13,C10]
      r is Response ==> (continue_untouched(*req, r->Response_0) || r->Response_0 is Fail)
//@ ensures#direct_failure_is_temporary_node_failure [C10,C02]
      (r is Response && r->Response_0 is Fail) ==> r->Response_0->failure_message@ == seq![0x20u8, 2u8]
//@ ensures#forward_is_continue [C13]
      req.onion.short_channel_id is Some ==> (r is Response && continue_untouched(*req, r->Response_0))
//@ closure 0
//@ cparams hint: &&RouteHint
//@ creturns b: bool
//@ ensures#pred_is_last_hop_is_local [C10]
      b == last_hop_is(**hint, self.params.local_pubkey)
//@ closure 1
//@ cparams hop: &RouteHintHop
//@ creturns b: bool
//@ ensures#pred_hop_is_local [C10]
      b == (hop.src_node_id == self.params.local_pubkey)
//@ end

// ---- slices of handle_htlc (E6) ------------------------------------------------------------------
pub open spec fn declared_total(req: HtlcAcceptedRequest, forward_msat: u64) -> u64 {
    match req.onion.total_msat { Some(t) => t, None => forward_msat }
}
pub open spec fn policy_failure(p: TrampolineRoutingPolicy) -> Seq<u8> {
    encode_spec(crate::messages::HtlcFailReason::TrampolineFeeOrExpiryInsufficient(p))
}

//@ fn htlc_manager::HtlcManager::handle_htlc#prefix
//@ implicit [C06,C13]
//@ ensures#early_answer_is_continue_untouched_or_self_hint_failure [C13]
//    classification answers without waiting on anything and without touching the world
      r is Some ==> (continue_untouched(*req, r->0) || r->0 is Fail)
//@ ensures#an_early_failure_is_only_the_self_route_hint_refusal [C13,C02,C07,C10]
//    before the table is consulted nothing is known about an outgoing payment for the hash: the only
//    failure that may be answered from here is check_htlc's temporary node failure (self route hint);
//    every policy rejection goes through the entry of the hash (and fails the whole set)
      (r is Some && r->0 is Fail) ==> r->0->failure_message@ == seq![0x20u8, 2u8]
//@ ensures#no_side_effect [C13]
//    no RPC, nothing stored, no state retained: the ghost world is unchanged on every path
      *final(w) == *old(w)
//@ ensures#plain_forward_continues [C13]
      req.onion.short_channel_id is Some ==> (r is Some && continue_untouched(*req, r->0))
//@ ensures#missing_forward_amount_is_answered_directly [C13]
      req.onion.forward_msat is None ==> r is Some
//@ end

//@ fn htlc_manager::HtlcManager::handle_htlc#gate
//@ implicit [C06]
//@ requires#inv
      ps_inv(*old(payment_state), *old(g))
//@ requires#held_total_fits_u64
      sum_held(old(g).held) + req.htlc.amount_msat as int <= u64::MAX as int
//@ ensures#inv [C06,C07,C03,C04,C11]
      ps_inv(*final(payment_state), *final(g))
//@ ensures#relative_expiry_below_policy_rejects_the_set [C04,C12,C07]
      (req.htlc.cltv_expiry_relative < self.params.routing_policy.cltv_expiry_delta as i64) ==>
          (final(payment_state).is_fail_requested && final(g).ready_q == old(g).ready_q)
//@ ensures#declared_total_below_fee_rejects_the_set [C12,C07]
      !fee_spec(self.params.routing_policy, declared_total(*req, forward_msat), trampoline.amount_msat) ==>
          (final(payment_state).is_fail_requested && final(g).ready_q == old(g).ready_q)
//@ ensures#conflicting_info_rejects_the_set [C07,C10,C03]
      trampoline != old(payment_state).trampoline ==>
          (final(payment_state).is_fail_requested && final(g).ready_q == old(g).ready_q)
//@ ensures#first_rejection_carries_the_configured_policy [C12]
      (old(g).fail_q.len() == 0 && !old(payment_state).is_fail_requested && trampoline == old(payment_state).trampoline
        && ((req.htlc.cltv_expiry_relative < self.params.routing_policy.cltv_expiry_delta as i64)
            || !fee_spec(self.params.routing_policy, declared_total(*req, forward_msat), trampoline.amount_msat)))
      ==> (final(g).fail_q.len() == 1 && final(g).fail_q[0] is Fail
           && final(g).fail_q[0]->failure_message@ == policy_failure(self.params.routing_policy))
//@ ensures#only_fail_values_requested [C02]
      forall|i: int| 0 <= i < final(g).fail_q.len() ==> (#[trigger] final(g).fail_q[i]) is Fail
//@ ensures#htlc_is_held_or_answered_at_once [C06,C07,C03,C01,C02]
      (old(payment_state).resolution is Some ==> sender.fate() == old(payment_state).resolution)
      && (old(payment_state).resolution is None ==>
            final(g).held == old(g).held.push(HeldAbs { amount: req.htlc.amount_msat, expiry: req.htlc.cltv_expiry }))
//@ end

// ---- the whole handle_htlc (closure body verbatim; payment_lifecycle enters as a stub: under E2
// its call inside tokio::spawn(..) is the hand-over of the new task, not under contract) ----------
//@ fn htlc_manager::payment_lifecycle
//@ end

//@ fn htlc_manager::HtlcManager::handle_htlc
//@ returns r
//@ ghostparam Tracked(w): Tracked<&mut World>, Tracked(g): Tracked<&mut G>
//@ implicit [C06]
//@ requires#ghost_of_this_call
      !old(g).via_listener && old(g).incoming == req.htlc.amount_msat
//@ ensures#a_held_htlc_is_settled_only_through_its_own_listener [C02,C01,C06,C07]
//    a Resolve answer is always the value the payment lifecycle sent on this call's own oneshot
      r is Resolve ==> final(g).via_listener
//@ ensures#a_held_htlc_is_failed_only_through_its_own_listener [C02,C06,C07]
//    the only failure answered directly is the self-route-hint temporary_node_failure of the
//    classification; every other Fail comes from the lifecycle through the listener
      (r is Fail && !final(g).via_listener) ==> r->failure_message@ == seq![0x20u8, 2u8]
//@ ensures#the_listener_value_is_returned_unchanged [C02,C01,C06,C07]
//    whatever the lifecycle sent to this call's listener is exactly the hook's answer
      final(g).via_listener ==> Some(r) == final(g).listener_value
//@ ensures#not_a_wellformed_trampoline_request_is_never_held [C13]
//    a plain forward, or a request without forward amount, is answered directly (never handed to
//    a payment): only well-formed trampoline requests reach the table
      (req.onion.short_channel_id is Some || req.onion.forward_msat is None) ==> !final(g).via_listener
//@ ensures#direct_continue_is_untouched [C13]
      (r is Continue && !final(g).via_listener) ==> continue_untouched(*req, r)
//@ ghost after_stmt /^let payment_state = payments/
//    snapshot of the table entry (and its ghost view) as found / created under the lock
      let ghost g0 = *g; let ghost ps0 = *payment_state;
//@ proof#relative_expiry_below_policy_rejects_the_set [C04,C12,C07] after_stmt /^payment_state\.add_htlc\(/
//    the gate clauses, stated on the whole function as well (the slice handle_htlc#gate states the same):
      assert((req.htlc.cltv_expiry_relative < self.params.routing_policy.cltv_expiry_delta as i64) ==>
          (payment_state.is_fail_requested && g.ready_q == g0.ready_q));
//@ proof#declared_total_below_fee_rejects_the_set [C12,C07] after_stmt /^payment_state\.add_htlc\(/
      assert(!crate::fee_spec(self.params.routing_policy, crate::htlc_manager::declared_total(*req, req.onion.forward_msat->0), trampoline.amount_msat) ==>
          (payment_state.is_fail_requested && g.ready_q == g0.ready_q));
//@ proof#conflicting_info_rejects_the_set [C07,C10,C03] after_stmt /^payment_state\.add_htlc\(/
      assert(trampoline != ps0.trampoline ==> (payment_state.is_fail_requested && g.ready_q == g0.ready_q));
//@ proof#first_rejection_carries_the_configured_policy [C12] after_stmt /^payment_state\.add_htlc\(/
      assert((g0.fail_q.len() == 0 && !ps0.is_fail_requested && trampoline == ps0.trampoline
            && ((req.htlc.cltv_expiry_relative < self.params.routing_policy.cltv_expiry_delta as i64)
                || !crate::fee_spec(self.params.routing_policy, crate::htlc_manager::declared_total(*req, req.onion.forward_msat->0), trampoline.amount_msat)))
          ==> (g.fail_q.len() == 1 && g.fail_q[0] is Fail
               && g.fail_q[0]->failure_message@ == crate::htlc_manager::policy_failure(self.params.routing_policy)));
//@ proof#htlc_is_held_or_answered_at_once [C06,C07,C03,C01,C02] after_stmt /^payment_state\.add_htlc\(/
      assert(ps0.resolution is None ==>
          g.held == g0.held.push(HeldAbs { amount: req.htlc.amount_msat, expiry: req.htlc.cltv_expiry }));
//@ closure 0
//@ creturns p: PaymentState
//@ ensures#fresh_entry_is_blank_and_for_this_trampoline [C06,C03,C07,C01,C10,C04]
      ps_inv(p, blank_g()) && p.trampoline == trampoline
//@ end
