// ---- contract of PaymentState::resolve (src/htlc_manager.rs), used by units paystate (proved)
// and lifecycle (assumed at the call in the free fn resolve) ----
//@ fn htlc_manager::PaymentState::resolve
//@ ensures#every_listener_gets_resp [C07,C06,C01,C02]
      forall|i: int| 0 <= i < old(self).htlcs@.len() ==> (#[trigger] old(self).htlcs@[i]).fate() == Some(resp)
//@ ensures#emptied [C07,C06]
      final(self).htlcs@.len() == 0
//@ ensures#late_htlcs_get_the_same [C07]
      final(self).resolution == Some(resp)
//@ loop 0
//@ invariant#prefix_kept
      self.htlcs@.len() <= old(self).htlcs@.len()
      && self.htlcs@ == old(self).htlcs@.subrange(0, self.htlcs@.len() as int)
//@ invariant#popped_suffix_answered [C07,C06,C01,C02]
      forall|i: int| self.htlcs@.len() <= i < old(self).htlcs@.len() ==> (#[trigger] old(self).htlcs@[i]).fate() == Some(resp)
//@ invariant#resolution_recorded
      self.resolution == Some(resp)
//@ invariant#frame
      self.amount_received_msat == old(self).amount_received_msat && self.cltv_expiry == old(self).cltv_expiry
      && self.is_ready == old(self).is_ready && self.is_fail_requested == old(self).is_fail_requested
      && self.trampoline == old(self).trampoline && self.payment_ready == old(self).payment_ready
      && self.fail_requested == old(self).fail_requested
//@ ensures#all_popped
      self.htlcs@.len() == 0
//@ decreases
      self.htlcs@.len()
//@ end

