// ---- specs/tlv_get.rs: get / remove / to_bytes of SerializedTlvStream (src/tlv.rs) --------------
//@ fn tlv::SerializedTlvStream::get
//@ returns r
//@ implicit [C06,C13]
//@ ensures#first_record_of_that_type [C10,C13]
      match first_of(self.view_entries(), typ) {
          None => r is None,
          Some(e) => r is Some && r->0.typ == e.typ && r->0.value@ == e.value,
      }
//@ end

//@ fn tlv::SerializedTlvStream::remove
//@ implicit [C06,C13]
//@ ensures#removes_only_the_first_record_of_that_type [C13]
      final(self).view_entries() == remove_first(old(self).view_entries(), typ)
//@ end
