// ---- specs/tlv_get.rs: get / remove of SerializedTlvStream (src/tlv.rs): the interface contract
// the callers assume (contract-only stubs) AND the one unit tlv_get proves on the real bodies
// (the closure directives are used only there) --------------------------------------------------
//@ fn tlv::SerializedTlvStream::get
//@ returns r
//@ implicit [C06,C13,C10]
//@ ensures#first_record_of_that_type [C10,C13,C18]
      match first_of(self.view_entries(), typ) {
          None => r is None,
          Some(e) => r is Some && r->0.typ == e.typ && r->0.value@ == e.value,
      }
//@ closure 0
//@ cparams e: &&TlvEntry
//@ creturns b: bool
//@ ensures#pred_is_type_equality
      b == (e.typ == typ)
//@ end

//@ fn tlv::SerializedTlvStream::remove
//@ implicit [C06,C13]
//@ ensures#removes_only_the_first_record_of_that_type [C13,C18]
      final(self).view_entries() == remove_first(old(self).view_entries(), typ)
//@ closure 0
//@ cparams e: &TlvEntry
//@ creturns b: bool
//@ ensures#pred_is_type_equality
      b == (e.typ == typ)
//@ end
