// ---- specs/iface.rs: contracts of the component interfaces (traits of /repo/src) ---------------
// The same clause text is used on both sides: units that CALL a trait method are checked against
// these clauses (unit lifecycle), units that IMPLEMENT it must establish them on the real impl
// bodies (units store, provider, height).

pub open spec fn resp_abs(r: messages::HtlcAcceptedResponse) -> RespAbs {
    match r {
        messages::HtlcAcceptedResponse::Continue { payload } => RespAbs::Continue,
        messages::HtlcAcceptedResponse::Fail { failure_message } => RespAbs::Fail { msg: failure_message@ },
        messages::HtlcAcceptedResponse::Resolve { payment_key } => RespAbs::Resolve { key: payment_key@ },
    }
}

/// frame of a store operation: only the state key and the attempt keys of `hash` may change
pub open spec fn ds_only_hash_keys_changed(a: World, b: World) -> bool {
    forall|k: Key| #![trigger b.ds.contains_key(k)] #![trigger b.ds[k]]
        !is_hash_key(k, a.hash) ==> (b.ds.contains_key(k) == a.ds.contains_key(k) && b.ds[k] == a.ds[k])
}

/// the conversion of a stored state to the value handed to the lifecycle
pub open spec fn state_matches(r: store::PaymentState, w: World) -> bool {
    match r {
        store::PaymentState::Free => store_of(w) is Free || store_of(w) is Absent,
        store::PaymentState::Pending { attempt_id, attempt_time_seconds } =>
            store_of(w) == (StoreAbs::Pending { attempt: attempt_id.attempt_id@, time: attempt_time_seconds })
            && attempt_id.state_generation as int <= store_gen(w)
            && (store_gen(w) >= 0 ==> attempt_id.state_generation as int == store_gen(w)),
        store::PaymentState::Succeeded { preimage } => store_of(w) == (StoreAbs::Succeeded { preimage: preimage@ }),
    }
}

//@ fn store::Datastore::fetch_payment_info
//@ returns r
//@ ghostparam Tracked(w): Tracked<&mut World>
//@ requires#hash
      trampoline.invoice.hash_spec() == old(w).hash
//@ requires#exclusive
      !old(w).released
//@ requires#no_rpc_under_lock [C14,C06,C11]
      !old(w).lock_held
//@ ensures#rely
      rely(World { wait_started_ns: final(w).wait_started_ns, ..*old(w) }, *final(w))
      && old(w).now_ns <= final(w).wait_started_ns <= final(w).now_ns
//@ ensures#reads_the_record [C01,C02,C05,C08,C09,C11]
      r is Ok ==> state_matches(r->Ok_0, *final(w))
//@ end

//@ fn store::Datastore::add_payment_attempt
//@ returns r
//@ ghostparam Tracked(w): Tracked<&mut World>
//@ requires#hash
      trampoline.invoice.hash_spec() == old(w).hash
//@ requires#exclusive
      !old(w).released
//@ requires#no_rpc_under_lock [C14,C06,C11]
      !old(w).lock_held
//@ requires#inv [C08]
      inv(*old(w))
//@ requires#no_overwrite_of_succeeded [C05]
      !(store_of(*old(w)) is Succeeded)
//@ ensures#env
      rely_env(World { attempted: true, ..*old(w) }, *final(w)) && final(w).attempted
//@ ensures#inv [C08]
      inv(*final(w))
//@ ensures#ok_means_pending_is_durable [C08,C05,C02]
      r is Ok ==> (store_of(*final(w)) is Pending && store_gen(*final(w)) == r->Ok_0.state_generation as int)
//@ ensures#only_the_attempt_record_write_can_be_rejected [C09]
//    absent faults the in-flight marker write itself always succeeds (create-or-replace): an error
//    can only come from the attempt record, after the marker is durable -- no stored image makes
//    a hash unpayable
      (r is Err && !final(w).faulted) ==> store_of(*final(w)) is Pending
//@ ensures#err_leaves_old_or_pending [C08,C09]
      r is Err ==> (store_of(*final(w)) == store_of(*old(w)) || store_of(*final(w)) is Pending)
//@ end

//@ fn store::Datastore::mark_failed
//@ returns r
//@ ghostparam Tracked(w): Tracked<&mut World>
//@ requires#hash
      trampoline.invoice.hash_spec() == old(w).hash
//@ requires#no_rpc_under_lock [C14,C06,C11]
      !old(w).lock_held
//@ requires#inv [C08]
      inv(*old(w))
//@ requires#generation_is_a_past_generation [C08,C05]
      attempt_id.state_generation as int <= store_gen(*old(w))
//@ requires#free_only_when_nothing_live [C08,C02,C05]
//    the Free write takes effect only if the generation still matches; in that case nothing may be
//    pending or complete and no pay command may be running
      store_gen(*old(w)) == attempt_id.state_generation as int ==> (!live(*old(w)) && !old(w).pay_running)
//@ ensures#env
      rely_env(*old(w), *final(w))
//@ ensures#inv [C08,C02,C05]
      inv(*final(w))
//@ ensures#ok_means_free [C09,C11]
      (r is Ok && !old(w).released) ==> store_of(*final(w)) is Free
//@ ensures#exclusive_err_keeps_state [C09]
      (r is Err && !old(w).released && !final(w).faulted) ==> store_of(*final(w)) == store_of(*old(w))
//@ ensures#no_fault_means_ok [C09]
//    C09: on every image that satisfies only the durable invariant (the attempt record may be
//    missing: add_payment_attempt writes it second), the recovery write succeeds absent faults
      (!final(w).faulted && !old(w).released && store_of(*old(w)) is Pending
          && store_gen(*old(w)) == attempt_id.state_generation as int) ==> r is Ok
//@ end

//@ fn store::Datastore::mark_succeeded
//@ returns r
//@ ghostparam Tracked(w): Tracked<&mut World>
//@ requires#hash
      trampoline.invoice.hash_spec() == old(w).hash
//@ requires#no_rpc_under_lock [C14,C06,C11]
      !old(w).lock_held
//@ requires#inv [C08]
      inv(*old(w))
//@ requires#succeeded_holds_the_preimage_of_the_hash [C08,C01]
      preimage@ == preimage_of(old(w).hash)
//@ requires#from_a_completed_part [C01,C08]
      old(w).complete == Some(preimage@)
//@ ensures#env
      rely_env(*old(w), *final(w))
//@ ensures#inv [C08]
      inv(*final(w))
//@ end

//@ fn block_watcher::BlockProvider::current_height
//@ returns r
//@ ghostparam Tracked(w): Tracked<&mut World>
//@ ensures#reads_best_height [C04,C20]
      rely(World { height_read: final(w).height_read, ..*old(w) }, *final(w))
      && final(w).height_read == r as int && r as int <= final(w).height && r as int >= old(w).height
//@ end

//@ fn email::NotificationService::notify_payment_failed
//@ ghostparam Tracked(w): Tracked<&mut World>
//@ ensures#rely
      rely(*old(w), *final(w))
//@ end
