// ---- specs/logwriter.rs: the log writer task (src/cln_plugin/logging.rs) --------------------------
// C17: "every message the plugin writes (replies and log notifications, possibly concurrently) is a
// complete JSON document followed by a blank line, never interleaved with another" and "every
// request ... receives exactly one reply": the log task writes through the writer it shares with the
// driver, one whole document per lock acquisition, and gives the lock back before it waits again.
//@ fn cln_plugin::logging::start_writer
//    a service loop: termination is not claimed
//@ attr #[verifier::exec_allows_no_decreases_clause]
//@ ghostparam Tracked(w): Tracked<&mut LogWire>
//@ implicit [C17,C06]
//@ requires#start [C17]
      !old(w).lock_held
//@ loop 0
//@ invariant#the_writer_lock_is_free_between_two_log_entries [C17,C06]
      !w.lock_held
//@ end
