// ---- specs/tlv_spec.rs: BigSize / TLV stream as mathematical functions (oracle of C18) ---------
pub struct EntryAbs { pub typ: u64, pub value: Seq<u8> }

/// number of bytes that follow the first byte of a compact size
pub open spec fn cs_more(first: u8) -> nat {
    if first == 253 { 2 } else if first == 254 { 4 } else if first == 255 { 8 } else { 0 }
}
/// decode a compact size at the front of `s`: (value, bytes consumed); None if truncated
pub open spec fn cs_dec(s: Seq<u8>) -> Option<(u64, nat)> {
    if s.len() < 1 { None }
    else if s.len() < 1 + cs_more(s[0]) { None }
    else if cs_more(s[0]) == 0 { Some((s[0] as u64, 1nat)) }
    else { Some((be_val(s.subrange(1, 1 + cs_more(s[0]) as int)) as u64, 1 + cs_more(s[0]))) }
}
/// the decoder's meaning: records until fewer than 2 bytes remain; None = error
pub open spec fn parse(s: Seq<u8>) -> Option<Seq<EntryAbs>> decreases s.len() {
    if s.len() < 2 { Some(Seq::empty()) } else {
        match cs_dec(s) {
            None => None,
            Some((typ, n1)) => match cs_dec(s.skip(n1 as int)) {
                None => None,
                Some((len, n2)) => {
                    let rest = s.skip(n1 as int).skip(n2 as int);
                    if rest.len() < len { None } else {
                        match parse(rest.skip(len as int)) {
                            None => None,
                            Some(tail) => Some(seq![EntryAbs { typ, value: rest.take(len as int) }] + tail),
                        }
                    }
                }
            }
        }
    }
}
pub open spec fn entries_view(v: Seq<tlv::TlvEntry>) -> Seq<EntryAbs> {
    Seq::new(v.len(), |i: int| EntryAbs { typ: v[i].typ, value: v[i].value@ })
}

/// BigSize encoding (minimal length) and the encoding of a record sequence
pub open spec fn be_bytes(x: nat, n: nat) -> Seq<u8> decreases n {
    if n == 0 { Seq::empty() } else { be_bytes(x / 256, (n - 1) as nat).push((x % 256) as u8) }
}
pub open spec fn cs_enc(x: u64) -> Seq<u8> {
    if x <= 0xFC { seq![x as u8] }
    else if x <= 0xFFFF { seq![253u8] + be_bytes(x as nat, 2) }
    else if x <= 0xFFFF_FFFF { seq![254u8] + be_bytes(x as nat, 4) }
    else { seq![255u8] + be_bytes(x as nat, 8) }
}
pub open spec fn enc_entry(e: EntryAbs) -> Seq<u8> { cs_enc(e.typ) + cs_enc(e.value.len() as u64) + e.value }
pub open spec fn enc_all(es: Seq<EntryAbs>) -> Seq<u8> decreases es.len() {
    if es.len() == 0 { Seq::empty() } else { enc_all(es.drop_last()) + enc_entry(es.last()) }
}

/// first record of the given type
pub open spec fn first_of(es: Seq<EntryAbs>, t: u64) -> Option<EntryAbs> decreases es.len() {
    if es.len() == 0 { None } else if es[0].typ == t { Some(es[0]) } else { first_of(es.drop_first(), t) }
}
/// the records with the first one of type `t` removed; all others byte for byte and in order
pub open spec fn remove_first(es: Seq<EntryAbs>, t: u64) -> Seq<EntryAbs> decreases es.len() {
    if es.len() == 0 { es } else if es[0].typ == t { es.drop_first() } else { seq![es[0]] + remove_first(es.drop_first(), t) }
}

