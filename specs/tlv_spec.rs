// ---- specs/tlv_spec.rs: BigSize / TLV stream as mathematical functions (oracle of C18) ---------
pub struct EntryAbs { pub typ: u64, pub value: Seq<u8> }

/// number of bytes that follow the first byte of a compact size
pub open spec fn cs_more(first: u8) -> nat {
    if first == 253 { 2 } else if first == 254 { 4 } else if first == 255 { 8 } else { 0 }
}
/// decode a compact size at the front of `s`: (value, bytes consumed); None if truncated
pub open spec fn cs_dec(s: Seq<u8>) -> Option<(u64, nat)> {
    if s.len() < 1 { None }
    else if s.len() < 1 + cs_more(s[0]) { None }
    else if cs_more(s[0]) == 0 { Some((s[0] as u64, 1nat)) }
    else { Some((be_val(s.subrange(1, 1 + cs_more(s[0]) as int)) as u64, 1 + cs_more(s[0]))) }
}
/// the decoder's meaning: records until fewer than 2 bytes remain; None = error
pub open spec fn parse(s: Seq<u8>) -> Option<Seq<EntryAbs>> decreases s.len() {
    if s.len() < 2 { Some(Seq::empty()) } else {
        match cs_dec(s) {
            None => None,
            Some((typ, n1)) => match cs_dec(s.skip(n1 as int)) {
                None => None,
                Some((len, n2)) => {
                    let rest = s.skip(n1 as int).skip(n2 as int);
                    if rest.len() < len { None } else {
                        match parse(rest.skip(len as int)) {
                            None => None,
                            Some(tail) => Some(seq![EntryAbs { typ, value: rest.take(len as int) }] + tail),
                        }
                    }
                }
            }
        }
    }
}
pub open spec fn entries_view(v: Seq<tlv::TlvEntry>) -> Seq<EntryAbs> {
    Seq::new(v.len(), |i: int| EntryAbs { typ: v[i].typ, value: v[i].value@ })
}
