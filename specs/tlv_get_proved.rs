// ---- specs/tlv_get_proved.rs: SerializedTlvStream::{get, remove} PROVED against the interface
// contract of specs/tlv_get.rs (unit tlv_get; std Vec / slice iteration enter through the model
// env/vec_model.rs).  The two recursive spec functions are characterised by the first index of
// the type (broadcast, so the bodies need no positional hints). ------------------------------------
impl SerializedTlvStream {
    pub closed spec fn view_entries(&self) -> Seq<EntryAbs> { entries_view(self.entries@) }
}
broadcast use crate::lemma_first_characterised, crate::lemma_entries_view_index;
