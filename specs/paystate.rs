// ---- specs/paystate.rs: representation invariant and contracts of PaymentState ----------------

/// Representation invariant of a table entry against its ghost view.
spec fn ps_inv(s: crate::htlc_manager::PaymentState, g: G) -> bool {
    // sums and minima are those of the HTLCs held in THIS entry (C03, C04, C14c)
    &&& s.amount_received_msat as int == sum_held(g.held)
    &&& s.cltv_expiry as int == min_held(g.held)
    &&& s.htlcs@.len() == g.held.len()
    // resolved entries hold nothing
    &&& (s.resolution is Some ==> s.htlcs@.len() == 0)
    // single-shot guards keep the capacity-1 sends non-blocking (C06b)
    &&& g.ready_q.len() <= 1 && g.fail_q.len() <= 1
    &&& (g.ever_ready_sent ==> (s.is_ready || s.is_fail_requested))
    &&& (!g.ever_ready_sent ==> g.ready_q.len() == 0)
    &&& ((g.fail_q.len() == 1) ==> s.is_fail_requested)
    &&& (!s.is_fail_requested ==> g.fail_q.len() == 0)
    &&& (s.is_fail_requested ==> !s.is_ready)
    // readiness was signalled only when the held total covers amount + fee (C03)
    &&& (s.is_ready ==> fee_spec(s.trampoline.routing_policy, s.amount_received_msat, s.trampoline.amount_msat))
    &&& (forall|i: int| 0 <= i < g.fail_q.len() ==> (#[trigger] g.fail_q[i]) is Fail)
}

//@ fn htlc_manager::PaymentState::new
//@ returns r
//@ implicit [C06]
//@ ensures#blank_entry [C03,C06,C07,C04,C11,C12,C10,C01]
      ps_inv(r, G { ready_q: Seq::empty(), fail_q: Seq::empty(), held: Seq::empty(), ever_ready_sent: false, via_listener: false, listener_value: None, incoming: 0 })
      && r.trampoline == trampoline && r.resolution is None && !r.is_ready && !r.is_fail_requested
//@ end

//@ fn htlc_manager::PaymentState::add_htlc
//@ ghostparam Tracked(g): Tracked<&mut G>
//@ implicit [C06]
//@ requires#inv
      ps_inv(*old(self), *old(g))
//@ requires#held_total_fits_u64
//    input validity assumption (listed): the sum of simultaneously held HTLC amounts is < 2^64 msat
      sum_held(old(g).held) + req.htlc.amount_msat as int <= u64::MAX as int
//@ ensures#inv [C03,C06,C07,C04,C14,C11,C09,C19]
      ps_inv(*final(self), *final(g))
//@ ensures#late_htlc_gets_the_recorded_resolution [C07,C06,C01,C02]
      old(self).resolution is Some ==> (sender.fate() == old(self).resolution && *final(self) == *old(self) && *final(g) == *old(g))
//@ ensures#held_grows_by_this_htlc [C03,C04,C06,C11]
      old(self).resolution is None ==> (
          final(g).held == old(g).held.push(HeldAbs { amount: req.htlc.amount_msat, expiry: req.htlc.cltv_expiry })
          && final(self).htlcs@ == old(self).htlcs@.push(sender)
          && final(self).resolution is None)
//@ ensures#ready_only_when_covered_and_not_failed [C03,C07,C11]
      final(g).ready_q.len() > old(g).ready_q.len() ==> (
          !final(self).is_fail_requested
          && fee_spec(final(self).trampoline.routing_policy, final(self).amount_received_msat, final(self).trampoline.amount_msat))
//@ ensures#never_ready_after_fail_request [C07,C04,C12]
      old(self).is_fail_requested ==> (final(g).ready_q == old(g).ready_q && !final(self).is_ready)
//@ ensures#frame
      final(self).trampoline == old(self).trampoline && final(g).fail_q == old(g).fail_q
      && final(self).is_fail_requested == old(self).is_fail_requested
      && final(g).via_listener == old(g).via_listener && final(g).listener_value == old(g).listener_value
//@ proof before_stmt /^self\.htlcs\.push\(sender\);/
      lemma_push_held(g.held, HeldAbs { amount: req.htlc.amount_msat, expiry: req.htlc.cltv_expiry });
      ghost_hold(g, HeldAbs { amount: req.htlc.amount_msat, expiry: req.htlc.cltv_expiry });
//@ end

//@ fn htlc_manager::PaymentState::fail
//@ ghostparam Tracked(g): Tracked<&mut G>
//@ implicit [C06]
//@ requires#inv
      ps_inv(*old(self), *old(g))
//@ requires#only_fail_responses [C02]
      resp is Fail
//@ ensures#inv [C06,C07,C11,C14,C09]
      ps_inv(*final(self), *final(g))
//@ ensures#fail_requested [C07,C04,C12,C06,C14]
      final(self).is_fail_requested && !final(self).is_ready
//@ ensures#first_request_wins [C07,C12,C06,C14,C11]
      final(g).fail_q == (if old(self).is_fail_requested { old(g).fail_q } else { old(g).fail_q.push(resp) })
//@ ensures#frame
      final(g).held == old(g).held && final(g).ready_q == old(g).ready_q && final(self).htlcs@ == old(self).htlcs@
      && final(self).trampoline == old(self).trampoline && final(self).resolution == old(self).resolution
      && final(self).amount_received_msat == old(self).amount_received_msat && final(self).cltv_expiry == old(self).cltv_expiry
      && final(g).via_listener == old(g).via_listener && final(g).listener_value == old(g).listener_value
//@ end
