// ---- contract of ToBytes::to_bytes for SerializedTlvStream (proved in unit tlv_enc) ----
//@ fn tlv::SerializedTlvStream::to_bytes
//@ returns r
//@ implicit [C06,C13,C18]
//@ ensures#concatenation_of_record_encodings [C13,C18]
      r@ == enc_all(s.view_entries())
//@ end
