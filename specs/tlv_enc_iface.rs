// ---- contract of ToBytes::to_bytes for SerializedTlvStream (proved in unit tlv_enc) ----
//@ fn tlv::SerializedTlvStream::to_bytes
//@ returns r
//@ implicit [C06,C13,C18]
//@ bind out /let mut (\w+) = bytes::BytesMut::new\(\);/
//@ bind rec /for (\w+) in /
//@ ensures#concatenation_of_record_encodings [C13,C18]
      r@ == enc_all(s.view_entries())
//@ loop 0
//@ iter it
//@ invariant#prefix_encoded [C18,C13]
      $out.mview() == enc_all(s.view_entries().take(it.index@)) && it.index@ <= s.view_entries().len()
      && s.view_entries() == entries_view(s.entries@)
//@ proof loop_end 0
      lemma_enc_all_push(s.view_entries(), it.index@);
      assert(s.view_entries()[it.index@].value == $rec.value@);
//@ proof before_stmt /^$out\.to_vec\(\)/
      assert(s.view_entries().take(s.view_entries().len() as int) =~= s.view_entries());
//@ end
