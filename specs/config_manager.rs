// ---- HtlcManager::new (src/htlc_manager.rs): the parameters are stored as given -------------------
impl<B: BlockProvider, N: NotificationService, P: PaymentProvider, S: Datastore> HtlcManager<B, N, P, S> {
    pub closed spec fn params_view(&self) -> HtlcManagerParams<B, N, P, S> { *self.params }
}
//@ fn htlc_manager::HtlcManager::new
//@ returns r
//@ implicit [C06,C19]
//@ ensures#stores_the_parameters_as_given [C19]
      r.params_view() == params
//@ end
