// ---- specs/lifecycle.rs: contracts on payment_lifecycle / resolve (src/htlc_manager.rs) --------


/// The world constants are those of this lifecycle's trampoline info and parameters.
pub open spec fn consts_match<B: BlockProvider, N: NotificationService, P: PaymentProvider, S: Datastore>(
    w: World, t: messages::TrampolineInfo, params: htlc_manager::HtlcManagerParams<B, N, P, S>) -> bool {
    &&& w.hash == t.invoice.hash_spec()
    &&& w.amount == t.amount_msat
    &&& w.inv_amount == t.invoice.amount_spec()
    &&& w.bolt11 == t.bolt11@
    &&& w.pol_base == t.routing_policy.fee_base_msat
    &&& w.pol_ppm == t.routing_policy.fee_proportional_millionths
    &&& w.pol_delta == t.routing_policy.cltv_expiry_delta
    &&& w.cltv_delta == params.cltv_delta
    &&& w.mpp_timeout_ns == dur_ns(params.mpp_timeout)
}

//@ fn htlc_manager::resolve
//@ ghostparam Tracked(w): Tracked<&mut World>
//@ implicit [C06]
//@ requires#hash
      trampoline.invoice.hash_spec() == old(w).hash
//@ requires#no_lock [C06,C07,C09,C11,C12,C13,C14]
      !old(w).lock_held
//@ requires#exactly_once [C06,C07]
      !old(w).released && old(w).resolved is None
//@ requires#fail_only_when_nothing_live [C02,C03]
//    C02: fail back only when no outgoing part is pending or complete and no pay is running
      resp is Fail ==> (!live(*old(w)) && !old(w).pay_running)
//@ requires#settle_only_with_the_preimage [C01]
//    C01: the key comes from a completed outgoing part, or the durable record of one, of this hash
      resp is Resolve ==> (old(w).complete == Some(resp->payment_key@)
                           || store_of(*old(w)) == (StoreAbs::Succeeded { preimage: resp->payment_key@ }))
//@ requires#inv [C01]
      inv(*old(w))
//@ requires#requested_failure_is_forwarded_unchanged [C12,C07]
//    C12/C07: a policy rejection requested by handle_htlc is answered to the whole set with exactly
//    the failure that was requested (it carries the configured policy)
      old(w).fail_received is Some ==> Some(resp_abs(resp)) == old(w).fail_received
//@ requires#fresh_payment_fails_generically_only_after_the_whole_timeout [C11,C12]
//    C11: for a set with no earlier attempt a temporary trampoline failure that is neither the answer
//    to a requested policy rejection nor the result of an attempt of ours is given only after the
//    timer has run the whole (non-zero) MPP timeout
      (resp is Fail && resp->failure_message@ == seq![0x20u8, 25u8] && old(w).fresh_start && !old(w).attempted
          && old(w).fail_received is None && old(w).mpp_timeout_ns > 0) ==> old(w).slept_ns == old(w).mpp_timeout_ns
//@ requires#never_continue [C06]
      !(resp is Continue)
//@ ensures#released [C06,C09,C07]
      final(w).released && final(w).resolved == Some(resp_abs(resp))
//@ ensures#key_is_the_preimage_of_the_hash [C01]
      resp is Resolve ==> resp->payment_key@ == preimage_of(old(w).hash)
//@ ensures#frame
      ds_hash_unchanged(*old(w), *final(w)) && final(w).faulted == old(w).faulted && !final(w).lock_held
      && rely_env(World { released: true, resolved: final(w).resolved, received_read: final(w).received_read,
                          min_expiry_read: final(w).min_expiry_read, height_at_init: final(w).height_at_init, ..*old(w) }, *final(w))
      && (!live(*old(w)) && !old(w).pay_running ==> !live(*final(w)))
//@ proof body_end
      ghost_set_resolved(w, resp_abs(resp));
//@ end

//@ fn htlc_manager::payment_lifecycle
//@ ghostparam Tracked(w): Tracked<&mut World>
//@ implicit [C06]
//@ requires#start_from_any_durable_image [C02,C05,C08,C09]
//    a (re)start: ANY world that satisfies only the durable invariant
      inv(*old(w)) && !old(w).released && old(w).resolved is None && !old(w).pay_running
      && !old(w).lock_held && !old(w).rpc_under_lock && !old(w).attempted && old(w).fail_received is None && old(w).slept_ns == 0 && !old(w).fresh_start
//@ requires#consts
      consts_match(*old(w), trampoline, *params)
//@ ensures#answered_exactly_once [C06,C09,C07]
      final(w).released && final(w).resolved is Some
//@ ensures#inv [C08]
      inv(*final(w))
//@ ensures#no_rpc_under_lock [C14,C06,C11]
      !final(w).rpc_under_lock
//@ ensures#paid_invoice_is_never_paid_again [C05]
      store_of(*old(w)) is Succeeded ==> !final(w).attempted
//@ ensures#recorded_preimage_is_replayed [C05,C09]
//    a Succeeded record settles the HTLCs from the recorded preimage
      store_of(*old(w)) is Succeeded ==>
          final(w).resolved == Some(RespAbs::Resolve { key: store_of(*old(w))->preimage })
//@ proof after_stmt /^let state = match params\.store\.fetch_payment_info/
//    history variable: was there an earlier attempt on record when this lifecycle started?
      ghost_set_fresh(w, state is Free);
//@ end
