// ---- specs/initopts.rs: the value an option gets from the `init` message (src/cln_plugin/mod.rs,
// Builder::handle_init).  A panic here is the plugin refusing to start (C19's first alternative),
// so panics are not obligations in this slice (implicit tag REFUSAL is no property); what must
// hold is that a NORMAL return carries exactly the configured value. -------------------------------
//@ fn cln_plugin::Builder::handle_init#value
//@ implicit [REFUSAL]
//@ ensures#runs_with_exactly_the_configured_value_or_refuses [C19,C04,C11,C12]
      match json_value {
          None => option_value == *default_value,
          Some(JValue::String(s)) => option_value is Some && option_value->0 is String,
          // a number that is not an i64 makes `unwrap()` panic: the plugin refuses to start (E17: no
          // normal return on that path), so a normal return carries the number's own i64 value
          Some(JValue::Number(i)) => i.as_i64_spec() is Some && option_value == Some(OValue::Integer(i.as_i64_spec()->0)),
          Some(JValue::Bool(b)) => option_value == Some(OValue::Boolean(*b)),
          // any other JSON type never returns normally (the plugin refuses to start)
          _ => false,
      }
//@ end

//@ fn cln_plugin::Builder::handle_init#store
//@ implicit [C19]
//@ ensures#the_value_is_stored_under_exactly_the_options_own_name [C19,C04,C11,C12]
//    what ConfiguredPlugin::option reads back (unit optread): this option's entry is the value just
//    computed, every other option's entry is untouched
      final(self).option_values@ == old(self).option_values@.insert(name@, option_value)
//@ end
