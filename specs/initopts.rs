// ---- specs/initopts.rs: the value an option gets from the `init` message (src/cln_plugin/mod.rs,
// Builder::handle_init).  A panic here is the plugin refusing to start (C19's first alternative),
// so panics are not obligations in this slice (implicit tag REFUSAL is no property); what must
// hold is that a NORMAL return carries exactly the configured value. -------------------------------
//@ fn cln_plugin::Builder::handle_init#value
//@ implicit [REFUSAL]
//@ ensures#runs_with_exactly_the_configured_value_or_refuses [C19,C04,C11,C12]
      match json_value {
          None => option_value == *default_value,
          Some(JValue::String(s)) => option_value is Some && option_value->0 is String,
          // a number that is not an i64 makes `unwrap()` panic: the plugin refuses to start (E17: no
          // normal return on that path), so a normal return carries the number's own i64 value
          Some(JValue::Number(i)) => i.as_i64_spec() is Some && option_value == Some(OValue::Integer(i.as_i64_spec()->0)),
          Some(JValue::Bool(b)) => option_value == Some(OValue::Boolean(*b)),
          // any other JSON type never returns normally (the plugin refuses to start)
          _ => false,
      }
//@ end

//@ fn cln_plugin::Builder::handle_init#store
//@ implicit [C19]
//@ ensures#the_value_is_stored_under_exactly_the_options_own_name [C19,C04,C11,C12]
//    what ConfiguredPlugin::option reads back (unit optread): this option's entry is the value just
//    computed, every other option's entry is untouched
      final(self).option_values@ == old(self).option_values@.insert(name@, option_value)
//@ end

//@ fn cln_plugin::Builder::configure#handover
//@ returns r
//@ implicit [C19,C17]
//@ ensures#the_plugin_reads_the_very_table_the_handshake_filled [C19,C04,C11,C12]
//    what handle_init stored (slice handle_init#store) is what ConfiguredPlugin::option reads (unit optread)
      r is Ok && r->Ok_0 is Some && r->Ok_0->0.option_values == self.option_values && r->Ok_0->0.options == self.options
//@ ensures#the_handshake_s_streams_init_id_and_tables_are_handed_on_unchanged [C17,C06,C20]
      r is Ok && r->Ok_0 is Some && ({ let cp = r->Ok_0->0;
          cp.init_id == init_id && cp.input == input && cp.output == output && cp.rpcmethods == rpcmethods
          && cp.subscriptions == subscriptions && cp.wildcard_subscription == all_subscription
          && cp.setconfig_callback == self.setconfig_callback && cp.notifications == self.notifications
          && cp.configuration == configuration })
//@ end
