//@ fn cln_plugin::ConfiguredPlugin::option_str
//@ returns r
//@ implicit [C19]
//@ ensures#the_value_stored_under_exactly_that_name [C19,C04,C11,C12]
      self.option_values@.contains_key(name@) ==> (r is Ok && r->Ok_0 == self.option_values@[name@]),
      !self.option_values@.contains_key(name@) ==> r is Err
//@ end

//@ fn cln_plugin::ConfiguredPlugin::option
//@ returns r
//@ implicit [C19]
//@ ensures#an_option_is_read_from_its_own_name_through_its_own_type [C19,C04,C11,C12]
//    the typed value is what the option's own `from_value` makes of the value stored under the
//    option's own name; an option that was never registered is an error (refusal)
      self.option_values@.contains_key(config_option.name@)
          ==> (r is Ok && call_ensures(OV::from_value, (&self.option_values@[config_option.name@],), r->Ok_0)),
      !self.option_values@.contains_key(config_option.name@) ==> r is Err
//@ end
