// ---- specs/driver.rs: the reply path of one dispatched request (src/cln_plugin/mod.rs) ---------
//@ fn cln_plugin::PluginDriver::dispatch_one#reply
//@ implicit [C06,C17]
//@ ensures#exactly_one_reply_with_the_request_id [C17,C06,C13,C12,C11,C07]
//    when the handler has finished, exactly one reply carrying this request's id is handed to the
//    writer (unless the writer is gone): the result on success, the error object otherwise
      !plugin.sender.closed() ==> (final(q).len() == old(q).len() + 1
          && final(q).drop_last() == *old(q)
          && match call {
                 Ok(v) => reply_view(final(q).last()) == (ReplyAbs::Result { id: id, result: v }),
                 Err(_) => reply_view(final(q).last()) is Error && reply_view(final(q).last())->Error_id == id,
             })
//@ ensures#never_more_than_one [C17]
      final(q).len() <= old(q).len() + 1
//@ end
