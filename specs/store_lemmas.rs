// ---- specs/store_lemmas.rs: consequences of the CLN datastore model (proved, crate root) ----
pub broadcast proof fn lemma_keys_distinct(h: Hash, id: Seq<char>)
    ensures state_key_spec(h) != #[trigger] attempt_key_spec(h, id),
        is_hash_key(state_key_spec(h), h), is_hash_key(attempt_key_spec(h, id), h),
{
    assert(state_key_spec(h).len() == 4);
    assert(attempt_key_spec(h, id).len() == 5);
}

// ---- consequences of one datastore call (proved from the CLN model, not assumed) -----------------
pub broadcast proof fn lemma_ds_call_always(a: World, req: DatastoreRequest, r: ::std::result::Result<DatastoreResponse, RpcError>, f: World)
    requires #[trigger] ds_call(a, req, r, f), inv(a), safe_write(a, req),
    ensures
        inv(f),
        rely_env(World { attempted: f.attempted, ..a }, f),
        a.attempted ==> f.attempted,
        (key_view(req.key) == state_key_spec(a.hash) && de_state(req.string->0@) is Pending) ==> f.attempted,
        key_view(req.key) != state_key_spec(a.hash) ==> f.attempted == a.attempted,
        a.faulted ==> f.faulted,
        f.lock_held == a.lock_held,
{
    let m = choose|m: World| rely(a, m) && ds_step(m, req, r, f);
    lemma_rely_preserves_inv(a, m);
    lemma_safe_write_stable(a, m, req);
    lemma_keys_distinct(a.hash, Seq::empty());
    let k = key_view(req.key);
    let sk = state_key_spec(a.hash);
    if f.ds != m.ds {
        assert(f.ds == ds_applied(m, req));
        if k == sk {
            assert(f.ds[sk].0 == req.string->0@);
        } else {
            assert(f.ds.contains_key(sk) == m.ds.contains_key(sk));
            assert(f.ds[sk] == m.ds[sk]);
        }
    }
}

pub proof fn lemma_safe_write_stable(a: World, b: World, req: DatastoreRequest)
    requires rely(a, b), safe_write(a, req),
    ensures safe_write(b, req),
{
    if !a.released { lemma_rely_store(a, b); }
}

/// a write to another key of the hash does not disturb a pending safe write of the state key
pub broadcast proof fn lemma_other_key_keeps_safe_write(a: World, req: DatastoreRequest, r: ::std::result::Result<DatastoreResponse, RpcError>, f: World, req2: DatastoreRequest)
    requires #[trigger] ds_call(a, req, r, f), #[trigger] safe_write(a, req2), key_view(req.key) != state_key_spec(a.hash),
    ensures safe_write(f, req2),
{
    let m = choose|m: World| rely(a, m) && ds_step(m, req, r, f);
    lemma_safe_write_stable(a, m, req2);
    let sk = state_key_spec(a.hash);
    assert(f.ds.contains_key(sk) == m.ds.contains_key(sk));
    assert(f.ds[sk] == m.ds[sk]);
}

/// Exclusive phase: nobody else touches keys of the hash, so the outcome is a function of `a`.
pub broadcast proof fn lemma_ds_call_exclusive(a: World, req: DatastoreRequest, r: ::std::result::Result<DatastoreResponse, RpcError>, f: World)
    requires #[trigger] ds_call(a, req, r, f), !a.released, is_hash_key(key_view(req.key), a.hash), req.string is Some,
    ensures
        forall|k2: Key| #![trigger f.ds.contains_key(k2)] #![trigger f.ds[k2]]
            (is_hash_key(k2, a.hash) && k2 != key_view(req.key)) ==> (f.ds.contains_key(k2) == a.ds.contains_key(k2) && f.ds[k2] == a.ds[k2]),
        r is Ok ==> (ds_mode_ok(a, req) && f.ds.contains_key(key_view(req.key))
            && f.ds[key_view(req.key)] == (req.string->0@, ds_newgen(a, key_view(req.key)))
            && r->Ok_0.generation == Some(ds_newgen(a, key_view(req.key)))),
        (r is Err && !f.faulted) ==> (!ds_mode_ok(a, req) && !a.faulted
            && f.ds.contains_key(key_view(req.key)) == a.ds.contains_key(key_view(req.key))
            && f.ds[key_view(req.key)] == a.ds[key_view(req.key)]),
        (r is Err && f.faulted) ==> (
            (f.ds.contains_key(key_view(req.key)) == a.ds.contains_key(key_view(req.key)) && f.ds[key_view(req.key)] == a.ds[key_view(req.key)])
            || (f.ds.contains_key(key_view(req.key)) && f.ds[key_view(req.key)] == (req.string->0@, ds_newgen(a, key_view(req.key))))),
        !f.faulted ==> ((r is Ok) == ds_mode_ok(a, req)),
        !f.released,
{
    let m = choose|m: World| rely(a, m) && ds_step(m, req, r, f);
    let k = key_view(req.key);
    assert(m.ds.contains_key(k) == a.ds.contains_key(k));
    assert(m.ds[k] == a.ds[k]);
    assert(ds_mode_ok(m, req) == ds_mode_ok(a, req));
    assert(ds_newgen(m, k) == ds_newgen(a, k));
    assert forall|k2: Key| (is_hash_key(k2, a.hash) && k2 != k) implies (#[trigger] f.ds.contains_key(k2) == a.ds.contains_key(k2) && f.ds[k2] == a.ds[k2]) by {
        assert(m.ds.contains_key(k2) == a.ds.contains_key(k2));
        assert(m.ds[k2] == a.ds[k2]);
    }
}

