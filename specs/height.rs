// ---- specs/height.rs: block height (src/block_watcher.rs) -----------------------------------------
//@ fn block_watcher::update_height
//@ returns r
//@ ghostparam Tracked(w): Tracked<&mut World>
//@ implicit [C06,C20]
//@ requires#inv
      old(w).height == old(w).height_told
//@ ensures#never_decreases [C20,C04]
      final(w).height >= old(w).height
//@ ensures#equals_max_of_all_heights_told [C20]
      final(w).height == final(w).height_told && final(w).height_told >= old(w).height_told
      && final(w).height_told >= new_height as int
      && final(w).height == (if new_height as int > final(w).height_read { new_height as int } else { final(w).height_read })
//@ ensures#frame
      *final(w) == (World { height: final(w).height, height_told: final(w).height_told, height_read: final(w).height_read, ..*old(w) })
//@ proof after_stmt /^let mut current_height = current_height\.lock\(\)/
      ghost_told(w, new_height);
//@ end

//@ fn block_watcher::poll_height
//@ returns r
//@ ghostparam Tracked(w): Tracked<&mut World>
//@ implicit [C06,C20]
//@ requires#inv
      old(w).height == old(w).height_told
//@ ensures#only_through_update_height [C20]
      final(w).height >= old(w).height && final(w).height == final(w).height_told
//@ ensures#applies_the_polled_height [C20]
//    a successful poll leaves the height at least at what the node reported
      r is Ok ==> final(w).height >= final(w).last_polled
//@ end

//@ fn block_watcher::BlockWatcher::new_block
//@ ghostparam Tracked(w): Tracked<&mut World>
//@ implicit [C06,C20]
//@ requires#inv
      old(w).height == old(w).height_told
//@ ensures#only_through_update_height [C20]
      final(w).height >= old(w).height && final(w).height == final(w).height_told
      && final(w).height >= block.height as int
//@ end

//@ fn block_watcher::BlockWatcher::new
//@ returns r
//@ implicit [C06]
//@ end

//@ fn block_watcher::BlockWatcher::current_height
//@ returns r
//@ ghostparam Tracked(w): Tracked<&mut World>
//@ implicit [C06,C20]
//@ requires#inv
      old(w).height == old(w).height_told
//@ ensures#reads_the_cell_without_changing_it [C20,C04]
      final(w).height == final(w).height_told && final(w).height >= old(w).height
      && r as int == final(w).height_read && r as int <= final(w).height && r as int >= old(w).height
//@ end
