// ---- specs/height.rs: block height (src/block_watcher.rs) -----------------------------------------
/// The value the plugin uses is the maximum of all heights it has been told: every update leaves
/// max(value found under the lock, new height) in the cell (contract of update_height), so by
/// induction over any interleaving of updates the cell holds the maximum of the initial value and
/// all heights told so far.
pub open spec fn fold_max(init: int, told: Seq<int>) -> int decreases told.len() {
    if told.len() == 0 { init } else { let m = fold_max(init, told.drop_last()); if told.last() > m { told.last() } else { m } }
}
pub proof fn lemma_fold_max_is_the_maximum(init: int, told: Seq<int>)
    ensures fold_max(init, told) >= init,
        forall|i: int| 0 <= i < told.len() ==> fold_max(init, told) >= #[trigger] told[i],
        fold_max(init, told) == init || exists|i: int| 0 <= i < told.len() && fold_max(init, told) == #[trigger] told[i],
    decreases told.len()
{
    if told.len() > 0 {
        lemma_fold_max_is_the_maximum(init, told.drop_last());
        assert forall|i: int| 0 <= i < told.len() implies fold_max(init, told) >= #[trigger] told[i] by {
            if i < told.len() - 1 { assert(told.drop_last()[i] == told[i]); }
        }
        let m = fold_max(init, told.drop_last());
        if !(told.last() > m) && m != init {
            let i = choose|i: int| 0 <= i < told.drop_last().len() && m == #[trigger] told.drop_last()[i];
            assert(told[i] == told.drop_last()[i]);
        }
    }
}

//@ fn block_watcher::update_height
//@ returns r
//@ ghostparam Tracked(w): Tracked<&mut World>
//@ implicit [C06,C20]
//@ requires#start
      old(w).height >= old(w).height_read
//@ ensures#never_decreases [C20,C04]
      final(w).height >= old(w).height && final(w).height >= final(w).height_read
//@ ensures#leaves_the_max_of_the_value_found_and_the_new_height [C20,C04]
//    one critical section: the cell ends at max(value found under the lock, new height)
      final(w).height == (if new_height as int > final(w).height_read { new_height as int } else { final(w).height_read })
      && final(w).height_read >= old(w).height
//@ ensures#frame
      *final(w) == (World { height: final(w).height, height_read: final(w).height_read, ..*old(w) })
//@ end

//@ fn block_watcher::poll_height
//@ returns r
//@ ghostparam Tracked(w): Tracked<&mut World>
//@ implicit [C06,C20]
//@ requires#start
      old(w).height >= old(w).height_read
//@ ensures#only_through_update_height [C20,C04]
//    never below what was there before, nor below what any of its critical sections found
      final(w).height >= old(w).height && final(w).height >= final(w).height_read
//@ ensures#applies_the_polled_height [C20,C04]
//    a successful poll leaves the height at least at what the node reported
      r is Ok ==> final(w).height >= final(w).last_polled
//@ ensures#never_below_the_last_height_polled [C20,C04]
//    a failed poll changes neither the cell nor what counts as polled
      old(w).height >= old(w).last_polled ==> final(w).height >= final(w).last_polled
//@ end

//@ fn block_watcher::BlockWatcher::new_block
//@ ghostparam Tracked(w): Tracked<&mut World>
//@ implicit [C06,C20]
//@ requires#start
      old(w).height >= old(w).height_read
//@ ensures#only_through_update_height [C20,C04]
      final(w).height >= old(w).height && final(w).height >= final(w).height_read && final(w).height >= block.height as int
//@ end

//@ fn block_watcher::BlockWatcher::start
//@ returns r
//@ ghostparam Tracked(w): Tracked<&mut World>, Tracked(p): Tracked<&mut PollGhost>
//@ implicit [C06,C20]
//@ requires#start
      old(w).height >= old(w).height_read && old(p).sleeps == old(p).polls
//@ ensures#never_decreases [C20,C04]
      final(w).height >= old(w).height
//@ ensures#startup_query_is_applied_before_the_plugin_runs [C20,C04]
//    the height reported by the startup getinfo is in the cell when start() returns Ok; a failed
//    startup query makes start() fail (the plugin does not run on an unknown height)
      r is Ok ==> final(w).height >= final(w).last_polled
//@ end

//@ fn block_watcher::BlockWatcher::new
//@ returns r
//@ implicit [C06]
//@ end

//@ fn block_watcher::BlockWatcher::current_height
//@ returns r
//@ ghostparam Tracked(w): Tracked<&mut World>
//@ implicit [C06,C20]
//@ requires#start
      old(w).height >= old(w).height_read
//@ ensures#reads_the_cell_without_changing_it [C20,C04]
      final(w).height >= old(w).height && final(w).height == final(w).height_read
      && r as int == final(w).height_read && r as int <= final(w).height && r as int >= old(w).height
//@ end

//@ fn block_watcher::poll_forever
//    a service loop: termination is not claimed (it ends only on the shutdown signal)
//@ attr #[verifier::exec_allows_no_decreases_clause]
//@ ghostparam Tracked(w): Tracked<&mut World>, Tracked(p): Tracked<&mut PollGhost>
//@ implicit [C06,C20]
//@ requires#start
      old(w).height >= old(w).height_read && old(p).sleeps == old(p).polls
//@ requires#startup_query_applied [C20,C04]
      old(w).height >= old(w).last_polled
//@ ensures#never_decreases [C20,C04]
      final(w).height >= old(w).height
//@ ensures#never_below_the_last_height_polled [C20,C04]
      final(w).height >= final(w).last_polled
//@ loop 0
//@ invariant#never_below_the_last_height_polled [C20,C04]
      w.height >= w.last_polled
//@ invariant#height_only_grows [C20,C04]
      w.height >= old(w).height && w.height >= w.height_read
//@ invariant#every_wakeup_polled [C20]
      p.sleeps == p.polls
//@ proof after_stmt /^match poll_height\(/
      ghost_polled(p);
//@ end
