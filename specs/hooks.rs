// ---- specs/hooks.rs: the two hook handlers of src/plugin.rs ---------------------------------------
//@ fn plugin::on_htlc_accepted
//@ returns r
//@ ghostparam Tracked(h): Tracked<&mut HookGhost>
//@ implicit [C06,C13]
//@ ensures#the_answer_is_the_managers_answer_to_exactly_this_request [C06,C13,C01,C02,C07,C12]
//    a request that deserializes is handed to the manager once, unchanged, and the hook returns the
//    serialization of exactly the manager's answer; one that does not deserialize never reaches the
//    manager and yields an error (the driver then replies with a JSON-RPC error)
      match crate::serde_json::parse_json::<HtlcAcceptedRequest>(v) {
          None => r is Err && final(h).handled == old(h).handled,
          Some(req) => final(h).handled.len() == old(h).handled.len() + 1
              && final(h).handled.drop_last() == old(h).handled
              && final(h).handled.last().0 == req
              && (r is Ok ==> r->Ok_0 == crate::serde_json::json_of(final(h).handled.last().1)),
      }
//@ ensures#frame [C20]
      final(h).told == old(h).told
//@ end

//@ fn plugin::on_block_added
//@ returns r
//@ ghostparam Tracked(h): Tracked<&mut HookGhost>
//@ implicit [C06,C20]
//@ ensures#every_block_notification_that_parses_is_told_to_the_block_watcher [C20,C04]
      match crate::serde_json::parse_json::<BlockAddedNotification>(v) {
          None => r is Err && final(h).told == old(h).told,
          Some(n) => r is Ok && final(h).told == old(h).told.push(n.block_added.height),
      }
//@ ensures#frame [C06]
      final(h).handled == old(h).handled
//@ end
