// ---- specs/tlv_enc.rs: encoder side of src/tlv.rs (inside mod tlv) ------------------------------
pub proof fn lemma_enc_all_push(es: Seq<EntryAbs>, i: int)
    requires 0 <= i < es.len()
    ensures enc_all(es.take(i + 1)) == enc_all(es.take(i)) + enc_entry(es[i])
{
    assert(es.take(i + 1).drop_last() =~= es.take(i));
    assert(es.take(i + 1).last() == es[i]);
}

//@ fn tlv::ProtoBufMut::put_compact_size
//@ implicit [C06,C18,C13]
//@ ensures#appends_the_minimal_bigsize_encoding [C18,C13]
      final(self).mview() == old(self).mview() + cs_enc(cs)
//@ proof body_begin
      if cs <= 0xFC { assert(be_bytes(cs as nat, 1) =~= seq![cs as u8]) by { reveal_with_fuel(be_bytes, 2); }; }
      assert(be_bytes(253, 1) =~= seq![253u8]) by { reveal_with_fuel(be_bytes, 2); };
      assert(be_bytes(254, 1) =~= seq![254u8]) by { reveal_with_fuel(be_bytes, 2); };
      assert(be_bytes(255, 1) =~= seq![255u8]) by { reveal_with_fuel(be_bytes, 2); };
//@ end

// ---- lossless: decoding what the encoder wrote gives back the value / the records ---------------
pub open spec fn pow256(n: nat) -> nat decreases n { if n == 0 { 1 } else { 256 * pow256((n - 1) as nat) } }

pub proof fn lemma_be_roundtrip(x: nat, n: nat)
    requires x < pow256(n)
    ensures be_bytes(x, n).len() == n, be_val(be_bytes(x, n)) == x
    decreases n
{
    if n > 0 {
        assert(x / 256 < pow256((n - 1) as nat));
        lemma_be_roundtrip(x / 256, (n - 1) as nat);
        assert(be_bytes(x, n).drop_last() =~= be_bytes(x / 256, (n - 1) as nat));
        assert(be_bytes(x, n).last() == (x % 256) as u8);
    } else {
        assert(be_bytes(x, n) =~= Seq::<u8>::empty());
    }
}

/// C18: the BigSize reader returns exactly the value the writer encoded, whatever follows
pub proof fn lemma_cs_roundtrip(x: u64, rest: Seq<u8>)
    ensures cs_dec(cs_enc(x) + rest) == Some((x, cs_enc(x).len()))
{
    let s = cs_enc(x) + rest;
    assert(pow256(0) == 1 && pow256(1) == 256 && pow256(2) == 65536 && pow256(3) == 16777216 && pow256(4) == 4294967296) by { reveal_with_fuel(pow256, 6); };
    assert(pow256(8) == 18446744073709551616) by { reveal_with_fuel(pow256, 10); };
    if x <= 0xFC {
        assert(s[0] == x as u8);
    } else if x <= 0xFFFF {
        lemma_be_roundtrip(x as nat, 2);
        assert(s[0] == 253u8);
        assert(s.subrange(1, 3) =~= be_bytes(x as nat, 2));
    } else if x <= 0xFFFF_FFFF {
        lemma_be_roundtrip(x as nat, 4);
        assert(s[0] == 254u8);
        assert(s.subrange(1, 5) =~= be_bytes(x as nat, 4));
    } else {
        lemma_be_roundtrip(x as nat, 8);
        assert(s[0] == 255u8);
        assert(s.subrange(1, 9) =~= be_bytes(x as nat, 8));
    }
}

pub proof fn lemma_enc_all_front(es: Seq<EntryAbs>)
    requires es.len() > 0
    ensures enc_all(es) == enc_entry(es[0]) + enc_all(es.drop_first())
    decreases es.len()
{
    if es.len() == 1 {
        assert(es.drop_last() =~= Seq::<EntryAbs>::empty());
        assert(es.drop_first() =~= Seq::<EntryAbs>::empty());
        assert(enc_all(es) =~= enc_entry(es[0]) + enc_all(es.drop_first()));
    } else {
        let init = es.drop_last();
        lemma_enc_all_front(init);
        assert(init.drop_first() =~= es.drop_first().drop_last());
        assert(es.drop_first().last() == es.last());
        assert(init[0] == es[0]);
        assert(enc_all(es) =~= enc_entry(es[0]) + enc_all(es.drop_first()));
    }
}


// ---- record-sequence round trip -----------------------------------------------------------------
/// one unfolding of `parse`, with the BigSize reads given as facts (keeps cs_enc/cs_dec out of
/// the solver's way in the induction below)
pub proof fn lemma_parse_step(s: Seq<u8>, typ: u64, n1: nat, len: u64, n2: nat)
    requires s.len() >= 2, cs_dec(s) == Some((typ, n1)), cs_dec(s.skip(n1 as int)) == Some((len, n2)),
        s.skip(n1 as int).skip(n2 as int).len() >= len,
    ensures parse(s) == (match parse(s.skip(n1 as int).skip(n2 as int).skip(len as int)) {
        None => None::<Seq<EntryAbs>>,
        Some(tail) => Some(seq![EntryAbs { typ, value: s.skip(n1 as int).skip(n2 as int).take(len as int) }] + tail),
    })
{}

pub proof fn lemma_entry_prefix(e: EntryAbs, tail: Seq<u8>)
    requires e.value.len() <= u64::MAX
    ensures ({
        let s = enc_entry(e) + tail;
        let l = e.value.len() as u64;
        let n1 = cs_enc(e.typ).len();
        let n2 = cs_enc(l).len();
        &&& s.len() >= 2
        &&& cs_dec(s) == Some((e.typ, n1))
        &&& cs_dec(s.skip(n1 as int)) == Some((l, n2))
        &&& s.skip(n1 as int).skip(n2 as int) == e.value + tail
    })
{
    let l = e.value.len() as u64;
    let s = enc_entry(e) + tail;
    let n1 = cs_enc(e.typ).len();
    let n2 = cs_enc(l).len();
    assert(n1 >= 1 && n2 >= 1);
    assert(s =~= cs_enc(e.typ) + (cs_enc(l) + e.value + tail));
    lemma_cs_roundtrip(e.typ, cs_enc(l) + e.value + tail);
    assert(s.skip(n1 as int) =~= cs_enc(l) + (e.value + tail));
    lemma_cs_roundtrip(l, e.value + tail);
    assert(s.skip(n1 as int).skip(n2 as int) =~= e.value + tail);
}

/// C18: encoding then decoding reproduces the records
pub proof fn lemma_parse_of_encoding(es: Seq<EntryAbs>)
    requires forall|i: int| 0 <= i < es.len() ==> (#[trigger] es[i]).value.len() <= u64::MAX
    ensures parse(enc_all(es)) == Some(es)
    decreases es.len()
{
    if es.len() == 0 {
        assert(enc_all(es) =~= Seq::<u8>::empty());
    } else {
        let e = es[0];
        let rest_es = es.drop_first();
        let tail = enc_all(rest_es);
        lemma_enc_all_front(es);
        let s = enc_all(es);
        assert(s == enc_entry(e) + tail);
        lemma_entry_prefix(e, tail);
        let l = e.value.len() as u64;
        let n1 = cs_enc(e.typ).len();
        let n2 = cs_enc(l).len();
        let r = s.skip(n1 as int).skip(n2 as int);
        assert(r == e.value + tail);
        assert(r.take(l as int) =~= e.value);
        assert(r.skip(l as int) =~= tail);
        assert forall|i: int| 0 <= i < rest_es.len() implies (#[trigger] rest_es[i]).value.len() <= u64::MAX by {
            assert(rest_es[i] == es[i + 1]);
        }
        lemma_parse_of_encoding(rest_es);
        lemma_parse_step(s, e.typ, n1, l, n2);
        assert(seq![EntryAbs { typ: e.typ, value: e.value }] + rest_es =~= es);
    }
}
/// C18: for every byte string that is an encoding (= every valid, minimally encoded TLV stream),
/// decoding then encoding reproduces the input bytes exactly
pub proof fn lemma_decode_then_encode(s: Seq<u8>, es: Seq<EntryAbs>)
    requires s == enc_all(es), forall|i: int| 0 <= i < es.len() ==> (#[trigger] es[i]).value.len() <= u64::MAX
    ensures parse(s) == Some(es) && enc_all(parse(s)->0) == s
{
    lemma_parse_of_encoding(es);
}
