// ---- specs/iface_provider.rs: contract of the PaymentProvider trait (caller side: unit lifecycle; implementor side: unit provider) ----
//@ fn payment_provider::PaymentProvider::pay
//@ returns r
//@ ghostparam Tracked(w): Tracked<&mut World>
//@ requires#hash
      req.payment_hash == old(w).hash
//@ requires#exclusive
      !old(w).released
//@ requires#no_rpc_under_lock [C14,C06,C11]
      !old(w).lock_held
//@ requires#write_ahead [C08,C05]
//    the in-flight marker is durable before the pay request is issued
      store_of(*old(w)) is Pending
//@ requires#nothing_live [C05,C08]
      !live(*old(w)) && !old(w).pay_running
//@ requires#htlcs_still_held [C03,C02]
      old(w).resolved is None
//@ requires#covered [C03]
//    held total >= amount to deliver + policy fee
      fee_rhs(old(w).pol_base, old(w).pol_ppm, old(w).amount) <= old(w).received
//@ requires#budget [C03]
//    (held total as read when the payment was initiated; the held total only grows until resolve)
      req.max_fee_msat as int <= old(w).received_read - old(w).amount && old(w).received_read <= old(w).received
//@ requires#delay [C04,C19]
//    lowest expiry among the HTLCs held when the payment was initiated - height known - safety delta
      req.max_cltv_delta as int <= max0(old(w).min_expiry_read - old(w).height_read - old(w).cltv_delta as int)
      && req.max_cltv_delta as int <= old(w).pol_delta as int
//@ requires#height_is_the_one_known_at_initiation [C04,C19,C20]
//    the height used is not older than the best height known when the payment was initiated
      old(w).height_read >= old(w).height_at_init
//@ requires#amount_rule [C03]
//    the invoice's own amount for fixed-amount invoices, exactly the declared amount otherwise
      req.amount_msat == (if old(w).inv_amount is Some { None::<u64> } else { Some(old(w).amount) })
//@ requires#pays_the_invoice_of_the_hash [C01,C03,C10,C05]
      req.bolt11@ == old(w).bolt11
//@ ensures#rely_like
      rely_env(World { pay_running: true, ..*old(w) }, World { pay_running: true, ..*final(w) }) && ds_hash_unchanged(*old(w), *final(w))
      && final(w).faulted == old(w).faulted && !final(w).pay_running
//@ ensures#ok_is_a_completed_part [C01,C16,C02]
      r is Ok ==> final(w).complete == Some(r->Ok_0@)
//@ ensures#err_is_final [C02,C16,C08,C05,C03]
      r is Err ==> !live(*final(w))
//@ end

//@ fn payment_provider::PaymentProvider::wait_payment
//@ returns r
//@ ghostparam Tracked(w): Tracked<&mut World>
//@ requires#hash
      payment_hash == old(w).hash
//@ requires#no_rpc_under_lock [C14,C06,C11]
      !old(w).lock_held
//@ requires#no_pay_running
      !old(w).pay_running
//@ ensures#rely
      rely(*old(w), *final(w))
//@ ensures#some_is_a_completed_part [C01,C15,C02]
      (r is Ok && r->Ok_0 is Some) ==> final(w).complete == Some(r->Ok_0->Some_0@)
//@ ensures#none_means_nothing_live [C02,C05,C15,C08,C03,C16]
      (r is Ok && r->Ok_0 is None) ==> !live(*final(w))
//@ end

