// ---- specs/rpc.rs: src/rpc.rs is a transparent pass-through to the node --------------------------
// The `?` conversions are the file's own From impls; their specs are these (checked on the impls).
impl vstd::std_specs::convert::FromSpecImpl<crate::anyhow::Error> for RpcError {
    open spec fn obeys_from_spec() -> bool { true }
    open spec fn from_spec(v: crate::anyhow::Error) -> Self { RpcError::General(v) }
}
impl vstd::std_specs::convert::FromSpecImpl<cln_rpc::RpcError> for RpcError {
    open spec fn obeys_from_spec() -> bool { true }
    open spec fn from_spec(v: cln_rpc::RpcError) -> Self { RpcError::Rpc(v) }
}
/// what a wrapper method must return, given what happened on the wire
pub open spec fn passes_through<Q, T>(t: Trace<Q, T>, r: ::std::result::Result<T, RpcError>) -> bool {
    match t.last {
        // no request went out: a connection (transport) problem, reported as General
        None => !t.called && r is Err && r->Err_0 is General,
        // the node's typed response, unchanged
        Some(Ok(x)) => t.called && r == Ok::<T, RpcError>(x),
        // the node's error object, unchanged (its numeric code is what wait_payment / the store read)
        Some(Err(e)) => t.called && r is Err && r->Err_0 == RpcError::Rpc(e),
    }
}

//@ fn rpc::ClnRpc::datastore
//@ returns r
//@ ghostparam Tracked(t): Tracked<&mut Trace<DatastoreRequest, DatastoreResponse>>
//@ requires#fresh [C08,C09,C14]
      !old(t).called && old(t).last is None && !old(t).shared_lock_held
//@ ensures#hands_back_exactly_what_the_node_answered [C08,C09,C05,C02]
      passes_through(*final(t), r) && !final(t).shared_lock_held
//@ ensures#the_request_goes_to_the_node_unchanged [C08,C09,C05,C14]
//    nothing is added to, dropped from or defaulted in the caller's request (e.g. a timeout the
//    caller deliberately left out: wait_payment waits without a deadline of its own)
      final(t).called ==> final(t).sent == Some(*request)
//@ end
//@ fn rpc::ClnRpc::get_info
//@ returns r
//@ ghostparam Tracked(t): Tracked<&mut Trace<GetinfoRequest, GetinfoResponse>>
//@ requires#fresh [C20,C14]
      !old(t).called && old(t).last is None && !old(t).shared_lock_held
//@ ensures#hands_back_exactly_what_the_node_answered [C20,C04]
      passes_through(*final(t), r) && !final(t).shared_lock_held
//@ end
//@ fn rpc::ClnRpc::listdatastore
//@ returns r
//@ ghostparam Tracked(t): Tracked<&mut Trace<ListdatastoreRequest, ListdatastoreResponse>>
//@ requires#fresh [C08,C09,C14]
      !old(t).called && old(t).last is None && !old(t).shared_lock_held
//@ ensures#hands_back_exactly_what_the_node_answered [C08,C09,C05,C02,C01]
      passes_through(*final(t), r) && !final(t).shared_lock_held
//@ ensures#the_request_goes_to_the_node_unchanged [C08,C09,C05,C02,C01,C14]
//    nothing is added to, dropped from or defaulted in the caller's request (e.g. a timeout the
//    caller deliberately left out: wait_payment waits without a deadline of its own)
      final(t).called ==> final(t).sent == Some(*request)
//@ end
//@ fn rpc::ClnRpc::listsendpays
//@ returns r
//@ ghostparam Tracked(t): Tracked<&mut Trace<ListsendpaysRequest, ListsendpaysResponse>>
//@ requires#fresh [C15,C14]
      !old(t).called && old(t).last is None && !old(t).shared_lock_held
//@ ensures#hands_back_exactly_what_the_node_answered [C15,C16,C02,C05,C08,C01]
      passes_through(*final(t), r) && !final(t).shared_lock_held
//@ ensures#the_request_goes_to_the_node_unchanged [C15,C16,C02,C05,C08]
//    nothing is added to, dropped from or defaulted in the caller's request (e.g. a timeout the
//    caller deliberately left out: wait_payment waits without a deadline of its own)
      final(t).called ==> final(t).sent == Some(*request)
//@ end
//@ fn rpc::ClnRpc::pay
//@ returns r
//@ ghostparam Tracked(t): Tracked<&mut Trace<PayRequest, PayResponse>>
//@ requires#fresh [C16,C14]
      !old(t).called && old(t).last is None && !old(t).shared_lock_held
//@ ensures#hands_back_exactly_what_the_node_answered [C16,C02,C05,C08,C01]
      passes_through(*final(t), r) && !final(t).shared_lock_held
//@ ensures#the_request_goes_to_the_node_unchanged [C16,C03,C04,C05,C19]
//    nothing is added to, dropped from or defaulted in the caller's request (e.g. a timeout the
//    caller deliberately left out: wait_payment waits without a deadline of its own)
      final(t).called ==> final(t).sent == Some(*request)
//@ end
//@ fn rpc::ClnRpc::waitsendpay
//@ returns r
//@ ghostparam Tracked(t): Tracked<&mut Trace<WaitsendpayRequest, WaitsendpayResponse>>
//@ requires#fresh [C15,C14]
      !old(t).called && old(t).last is None && !old(t).shared_lock_held
//@ ensures#hands_back_exactly_what_the_node_answered [C15,C16,C09,C02,C05,C08,C03]
      passes_through(*final(t), r) && !final(t).shared_lock_held
//@ ensures#the_request_goes_to_the_node_unchanged [C15,C16,C09,C02,C05,C08]
//    nothing is added to, dropped from or defaulted in the caller's request (e.g. a timeout the
//    caller deliberately left out: wait_payment waits without a deadline of its own)
      final(t).called ==> final(t).sent == Some(request)
//@ end

//@ fn rpc::Rpc::datastore
//@ ghostparam Tracked(t): Tracked<&mut Trace<DatastoreRequest, DatastoreResponse>>
//@ implicit [C06,C14,C17]
//@ end
//@ fn rpc::Rpc::get_info
//@ ghostparam Tracked(t): Tracked<&mut Trace<GetinfoRequest, GetinfoResponse>>
//@ implicit [C06,C14,C17]
//@ end
//@ fn rpc::Rpc::listdatastore
//@ ghostparam Tracked(t): Tracked<&mut Trace<ListdatastoreRequest, ListdatastoreResponse>>
//@ implicit [C06,C14,C17]
//@ end
//@ fn rpc::Rpc::listsendpays
//@ ghostparam Tracked(t): Tracked<&mut Trace<ListsendpaysRequest, ListsendpaysResponse>>
//@ implicit [C06,C14,C17]
//@ end
//@ fn rpc::Rpc::pay
//@ ghostparam Tracked(t): Tracked<&mut Trace<PayRequest, PayResponse>>
//@ implicit [C06,C14,C17]
//@ end
//@ fn rpc::Rpc::waitsendpay
//@ ghostparam Tracked(t): Tracked<&mut Trace<WaitsendpayRequest, WaitsendpayResponse>>
//@ implicit [C06,C14,C17]
//@ end
//@ fn rpc::Rpc::new
//@ returns r
//@ implicit [C06]
//@ end
//@ fn rpc::Rpc::rpc
//@ returns r
//@ implicit [C06,C14]
//@ end
