// ---- specs/rpc.rs: src/rpc.rs is a transparent pass-through to the node --------------------------
// The `?` conversions are the file's own From impls; their specs are these (checked on the impls).
impl vstd::std_specs::convert::FromSpecImpl<crate::anyhow::Error> for RpcError {
    open spec fn obeys_from_spec() -> bool { true }
    open spec fn from_spec(v: crate::anyhow::Error) -> Self { RpcError::General(v) }
}
impl vstd::std_specs::convert::FromSpecImpl<cln_rpc::RpcError> for RpcError {
    open spec fn obeys_from_spec() -> bool { true }
    open spec fn from_spec(v: cln_rpc::RpcError) -> Self { RpcError::Rpc(v) }
}
/// what a wrapper method must return, given what happened on the wire
pub open spec fn passes_through<T>(t: Trace<T>, r: ::std::result::Result<T, RpcError>) -> bool {
    match t.last {
        // no request went out: a connection (transport) problem, reported as General
        None => !t.called && r is Err && r->Err_0 is General,
        // the node's typed response, unchanged
        Some(Ok(x)) => t.called && r == Ok::<T, RpcError>(x),
        // the node's error object, unchanged (its numeric code is what wait_payment / the store read)
        Some(Err(e)) => t.called && r is Err && r->Err_0 == RpcError::Rpc(e),
    }
}

//@ fn rpc::ClnRpc::datastore
//@ returns r
//@ ghostparam Tracked(t): Tracked<&mut Trace<DatastoreResponse>>
//@ requires#fresh [C08,C09,C14]
      !old(t).called && old(t).last is None && !old(t).shared_lock_held
//@ ensures#hands_back_exactly_what_the_node_answered [C08,C09,C05,C02]
      passes_through(*final(t), r) && !final(t).shared_lock_held
//@ end
//@ fn rpc::ClnRpc::get_info
//@ returns r
//@ ghostparam Tracked(t): Tracked<&mut Trace<GetinfoResponse>>
//@ requires#fresh [C20,C14]
      !old(t).called && old(t).last is None && !old(t).shared_lock_held
//@ ensures#hands_back_exactly_what_the_node_answered [C20]
      passes_through(*final(t), r) && !final(t).shared_lock_held
//@ end
//@ fn rpc::ClnRpc::listdatastore
//@ returns r
//@ ghostparam Tracked(t): Tracked<&mut Trace<ListdatastoreResponse>>
//@ requires#fresh [C08,C09,C14]
      !old(t).called && old(t).last is None && !old(t).shared_lock_held
//@ ensures#hands_back_exactly_what_the_node_answered [C08,C09,C05,C02,C01]
      passes_through(*final(t), r) && !final(t).shared_lock_held
//@ end
//@ fn rpc::ClnRpc::listsendpays
//@ returns r
//@ ghostparam Tracked(t): Tracked<&mut Trace<ListsendpaysResponse>>
//@ requires#fresh [C15,C14]
      !old(t).called && old(t).last is None && !old(t).shared_lock_held
//@ ensures#hands_back_exactly_what_the_node_answered [C15,C16,C02,C05,C08,C01]
      passes_through(*final(t), r) && !final(t).shared_lock_held
//@ end
//@ fn rpc::ClnRpc::pay
//@ returns r
//@ ghostparam Tracked(t): Tracked<&mut Trace<PayResponse>>
//@ requires#fresh [C16,C14]
      !old(t).called && old(t).last is None && !old(t).shared_lock_held
//@ ensures#hands_back_exactly_what_the_node_answered [C16,C02,C05,C08,C01]
      passes_through(*final(t), r) && !final(t).shared_lock_held
//@ end
//@ fn rpc::ClnRpc::waitsendpay
//@ returns r
//@ ghostparam Tracked(t): Tracked<&mut Trace<WaitsendpayResponse>>
//@ requires#fresh [C15,C14]
      !old(t).called && old(t).last is None && !old(t).shared_lock_held
//@ ensures#hands_back_exactly_what_the_node_answered [C15,C16,C09,C02,C05,C08,C03]
      passes_through(*final(t), r) && !final(t).shared_lock_held
//@ end

//@ fn rpc::Rpc::datastore
//@ ghostparam Tracked(t): Tracked<&mut Trace<DatastoreResponse>>
//@ implicit [C06,C14,C17]
//@ end
//@ fn rpc::Rpc::get_info
//@ ghostparam Tracked(t): Tracked<&mut Trace<GetinfoResponse>>
//@ implicit [C06,C14,C17]
//@ end
//@ fn rpc::Rpc::listdatastore
//@ ghostparam Tracked(t): Tracked<&mut Trace<ListdatastoreResponse>>
//@ implicit [C06,C14,C17]
//@ end
//@ fn rpc::Rpc::listsendpays
//@ ghostparam Tracked(t): Tracked<&mut Trace<ListsendpaysResponse>>
//@ implicit [C06,C14,C17]
//@ end
//@ fn rpc::Rpc::pay
//@ ghostparam Tracked(t): Tracked<&mut Trace<PayResponse>>
//@ implicit [C06,C14,C17]
//@ end
//@ fn rpc::Rpc::waitsendpay
//@ ghostparam Tracked(t): Tracked<&mut Trace<WaitsendpayResponse>>
//@ implicit [C06,C14,C17]
//@ end
//@ fn rpc::Rpc::new
//@ returns r
//@ implicit [C06]
//@ end
//@ fn rpc::Rpc::rpc
//@ returns r
//@ implicit [C06,C14]
//@ end
