// ---- specs/config.rs: option conversion in main() (src/main.rs) -----------------------------------
pub open spec fn cfg_in_range(cp: ConfiguredPlugin) -> bool {
    &&& 0 <= cfg_int(cp, OPTION_CLTV_DELTA) <= u16::MAX
    &&& 0 <= cfg_int(cp, OPTION_POLICY_CLTV_DELTA) <= u16::MAX
    &&& 0 <= cfg_int(cp, OPTION_POLICY_FEE_BASE) <= u32::MAX
    &&& 0 <= cfg_int(cp, OPTION_POLICY_FEE_PER_SATOSHI) <= u32::MAX
    &&& 0 <= cfg_int(cp, OPTION_MPP_TIMEOUT)
    &&& 0 <= cfg_int(cp, OPTION_PAYMENT_TIMEOUT)
}

//@ fn main::main#options
//@ implicit [C06,C19]
//@ ensures#refuses_exactly_bad_configurations [C19]
//    refuses to start iff a value is out of range or the policy delta is not greater than the safety delta
      (r is Ok) == (cfg_in_range(*cp) && cfg_int(*cp, OPTION_POLICY_CLTV_DELTA) > cfg_int(*cp, OPTION_CLTV_DELTA))
//@ ensures#safety_margin_is_the_configured_one [C19,C04]
      r is Ok ==> r->Ok_0.0 as int == cfg_int(*cp, OPTION_CLTV_DELTA)
//@ ensures#policy_is_the_configured_one [C19,C12]
      r is Ok ==> (r->Ok_0.1.cltv_expiry_delta as int == cfg_int(*cp, OPTION_POLICY_CLTV_DELTA)
          && r->Ok_0.1.fee_base_msat as int == cfg_int(*cp, OPTION_POLICY_FEE_BASE)
          && r->Ok_0.1.fee_proportional_millionths as int == cfg_int(*cp, OPTION_POLICY_FEE_PER_SATOSHI))
//@ ensures#mpp_timeout_is_the_configured_one [C19,C11]
      r is Ok ==> dur_ns(r->Ok_0.2) == cfg_int(*cp, OPTION_MPP_TIMEOUT) as nat * 1_000_000_000
//@ ensures#self_route_hints_flag [C19,C10]
      r is Ok ==> r->Ok_0.3 == !cfg_flag(*cp, OPTION_NO_SELF_ROUTE_HINTS)
//@ ensures#payment_retry_time_is_the_configured_one_capped [C19]
      r is Ok ==> r->Ok_0.4.retry_for_view() as int == (if cfg_int(*cp, OPTION_PAYMENT_TIMEOUT) <= 65535 { cfg_int(*cp, OPTION_PAYMENT_TIMEOUT) as int } else { 65535 })
//@ ensures#xpay_flag [C19]
      r is Ok ==> r->Ok_0.4.xpay_view() == cfg_bool(*cp, OPTION_XPAY)
//@ end

//@ fn main::main#manager
//@ implicit [C06,C19]
//@ ensures#manager_runs_with_exactly_the_converted_values [C19,C04,C11,C12,C10]
      r.params_view().cltv_delta == cltv_delta
      && r.params_view().routing_policy == routing_policy
      && r.params_view().mpp_timeout == mpp_timeout
      && r.params_view().allow_self_route_hints == allow_self_route_hints
      && r.params_view().local_pubkey == info.id
      && r.params_view().payment_provider == payment_provider
//@ ensures#manager_reads_heights_from_the_started_watcher_and_uses_the_one_store [C04,C20,C08,C09]
      r.params_view().block_provider == block_watcher && r.params_view().store == store
      && r.params_view().notification_service == notification_service
//@ end

//@ fn main::main#watcher
//@ implicit [C06,C20]
//@ ensures#the_watcher_handed_on_has_been_started [C20,C04]
//    the manager and the block_added hook get a watcher whose height cell was initialised from the
//    node and whose poller runs -- not a fresh one
      r is Ok ==> (r->Ok_0.0).started@
//@ end

//@ fn main::main#state
//@ implicit [C06,C20]
//@ ensures#hooks_and_manager_share_one_watcher_and_one_manager [C20,C04,C06]
//    the block_added hook updates the very watcher the manager reads heights from, and htlc_accepted
//    reaches the very manager main() configured (slices main#manager / main#watcher)
      state.watcher_view() == block_watcher && state.manager_view() == htlc_manager
//@ end
