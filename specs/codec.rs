// ---- specs/codec.rs: MultiLineCodec (src/cln_plugin/codec.rs) ---------------------------------------
pub open spec fn is_sep(s: Seq<u8>, i: int) -> bool { 0 <= i && i + 1 < s.len() && s[i] == 10u8 && s[i + 1] == 10u8 }
pub open spec fn no_sep(s: Seq<u8>) -> bool { forall|j: int| !is_sep(s, j) }
pub open spec fn first_sep(s: Seq<u8>, p: int) -> bool { is_sep(s, p) && forall|j: int| 0 <= j < p ==> !is_sep(s, j) }

/// However the stream is chunked: appending more bytes never changes the position of the first
/// separator already present (so each message is decoded once, in order), and without a
/// separator decode() leaves the buffer untouched (so bytes accumulate across reads).
pub proof fn lemma_first_separator_is_chunking_independent(a: Seq<u8>, b: Seq<u8>, p: int)
    requires first_sep(a, p)
    ensures first_sep(a + b, p)
{
    assert((a + b)[p] == a[p]);
    assert((a + b)[p + 1] == a[p + 1]);
    assert forall|j: int| 0 <= j < p implies !is_sep(a + b, j) by {
        assert(!is_sep(a, j));
        assert(j + 1 < a.len());
        assert((a + b)[j] == a[j]);
        assert((a + b)[j + 1] == a[j + 1]);
    }
}
/// a split inside the separator: the separator is found as soon as both bytes are in the buffer
pub proof fn lemma_split_inside_separator(a: Seq<u8>, b: Seq<u8>)
    requires no_sep(a), a.len() > 0, a.last() == 10u8, b.len() > 0, b[0] == 10u8
    ensures first_sep(a + b, a.len() - 1)
{
    let s = a + b;
    assert(s[a.len() - 1] == a.last());
    assert(s[a.len() as int] == b[0]);
    assert forall|j: int| 0 <= j < a.len() - 1 implies !is_sep(s, j) by {
        assert(s[j] == a[j]);
        assert(s[j + 1] == a[j + 1]);
        assert(!is_sep(a, j));
    }
}

//@ fn cln_plugin::codec::find_separator
//@ returns r
//@ implicit [C06,C17]
//@ ensures#buffer_untouched [C17]
      final(buf).data@ == old(buf).data@
//@ ensures#first_separator_or_none [C17]
      match r { Some(i) => first_sep(old(buf).data@, i as int) && i as int + 2 <= old(buf).data@.len(), None => no_sep(old(buf).data@) }
//@ closure 0
//@ cparams b: (&u8, &u8)
//@ creturns r: bool
//@ ensures#pair_is_two_newlines [C17]
      r == (*b.0 == 10u8 && *b.1 == 10u8)
//@ end

//@ fn cln_plugin::codec::utf8
//@ returns r
//@ implicit [C06,C17]
//@ ensures#utf8 [C17]
      match r { Ok(s) => utf8_spec(buf@) == Some(s@), Err(_) => utf8_spec(buf@) is None }
//@ closure 0
//@ cparams _e: ::core::str::Utf8Error
//@ end

//@ fn cln_plugin::codec::MultiLineCodec::decode
//@ returns r
//@ implicit [C06,C17]
//@ ensures#nothing_to_decode_leaves_the_buffer [C17]
      no_sep(old(buf).data@) ==> (r is Ok && r->Ok_0 is None && final(buf).data@ == old(buf).data@)
//@ ensures#decodes_exactly_the_first_message [C17,C06]
      forall|p: int| first_sep(old(buf).data@, p) ==> (
          final(buf).data@ == old(buf).data@.skip(p + 2)
          && match utf8_spec(old(buf).data@.take(p)) {
                 Some(m) => r is Ok && r->Ok_0 is Some && r->Ok_0->0@ == m,
                 None => r is Err,
             })
//@ proof before_stmt /^let line = buf\.split_to/
      axiom_bytesmut_len(*buf);
      assert(is_sep(buf.data@, newline_offset as int));
      let d0 = buf.data@; let p0 = newline_offset as int;
      assert(d0.take(p0 + 2).take(p0) =~= d0.take(p0));
      assert forall|p: int| first_sep(d0, p) implies p == p0 by {
          if p < p0 { assert(!is_sep(d0, p)); } else if p0 < p { assert(!is_sep(d0, p0)); }
      }
//@ end


//@ fn cln_plugin::codec::MultiLineCodec::encode
//@ returns r
//@ implicit [C06,C17]
//@ ensures#appends_the_text_and_exactly_one_blank_line_separator [C17]
//    the frame written for a message is its UTF-8 bytes followed by "\n\n"; what was already in
//    the buffer stays in front of it
      r is Ok && final(buf).data@ == old(buf).data@ + as_ref_view::<T, str>(&line).spec_bytes() + seq![10u8, 10u8]
//@ end

//@ fn cln_plugin::codec::JsonCodec::decode
//@ returns r
//@ implicit [C06,C17]
//@ ensures#nothing_to_decode_leaves_the_buffer [C17]
      no_sep(old(buf).data@) ==> (r is Ok && r->Ok_0 is None && final(buf).data@ == old(buf).data@)
//@ ensures#decodes_exactly_the_first_message_as_one_json_value [C17,C06]
//    each frame is consumed exactly once and yields the value its text parses to -- or an error,
//    never a silent skip
      forall|p: int| first_sep(old(buf).data@, p) ==> (
          final(buf).data@ == old(buf).data@.skip(p + 2)
          && match utf8_spec(old(buf).data@.take(p)) {
                 Some(m) => match crate::serde_json::json_parse(m) {
                     Some(v) => r is Ok && r->Ok_0 == Some(v),
                     // a frame that is not JSON is no message: an error (as the code does) or nothing,
                     // never a made-up value
                     None => r is Err || r->Ok_0 is None,
                 },
                 None => r is Err,
             })
//@ end

//@ fn cln_plugin::codec::JsonCodec::encode
//@ returns r
//@ implicit [C06,C17]
//@ ensures#one_frame_is_appended_and_it_ends_in_the_blank_line [C17]
//    what was in the buffer stays in front; the appended frame ends with the separator
      r is Ok && final(buf).data@.len() >= old(buf).data@.len() + 2
      && final(buf).data@.take(old(buf).data@.len() as int) == old(buf).data@
      && final(buf).data@.skip(final(buf).data@.len() - 2) == seq![10u8, 10u8]
//@ ensures#exactly_one_document_is_written [C17,C06]
//    the frame is the rendering of ONE value followed by the separator (not two frames, not a part)
      exists|v: Value, s: String| s@ == #[trigger] crate::serde_json::json_text(v)
          && final(buf).data@ == old(buf).data@ + (#[trigger] as_ref_view::<String, str>(&s)).spec_bytes() + seq![10u8, 10u8]
//@ end

//@ fn cln_plugin::codec::JsonRpcCodec::decode
//@ returns r
//@ implicit [C06,C17]
//@ ensures#nothing_to_decode_leaves_the_buffer [C17]
      no_sep(old(buf).data@) ==> (r is Ok && r->Ok_0 is None && final(buf).data@ == old(buf).data@)
//@ ensures#decodes_exactly_the_first_message_as_one_jsonrpc_message [C17,C06]
      forall|p: int| first_sep(old(buf).data@, p) ==> (
          final(buf).data@ == old(buf).data@.skip(p + 2)
          && match utf8_spec(old(buf).data@.take(p)) {
                 Some(m) => match crate::serde_json::json_parse(m) {
                     Some(v) => match crate::serde_json::from_value_spec::<JsonRpc<Notification, Request>>(v) {
                         Some(q) => r is Ok && r->Ok_0 == Some(q),
                         None => r is Err || r->Ok_0 is None,
                     },
                     None => r is Err || r->Ok_0 is None,
                 },
                 None => r is Err,
             })
//@ end
