// ---- specs/tlv_dec.rs: contracts of the decoder side of src/tlv.rs ------------------------------
impl SerializedTlvStream {
    /// public view of the private `entries` field (specification only)
    pub closed spec fn view_entries(&self) -> Seq<EntryAbs> { entries_view(self.entries@) }
}
broadcast use crate::bytes::axiom_bytes_as_ref;
impl vstd::std_specs::convert::TryFromSpecImpl<Vec<u8>> for SerializedTlvStream {
    open spec fn obeys_try_from_spec() -> bool { false }
    open spec fn try_from_spec(v: Vec<u8>) -> Result<Self, crate::AnyErr> { arbitrary() }
}
//@ fn tlv::ProtoBuf::get_compact_size
//@ returns r
//@ implicit [C18,C06]
//@ ensures#total_and_exact [C18,C06,C10,C13]
//    never reads past the end: truncated => Err; otherwise the BigSize value, buffer advanced past it
      match cs_dec(old(self).bview()) {
          None => r is Err,
          Some((v, n)) => r is Ok && r->Ok_0 == v && final(self).bview() == old(self).bview().skip(n as int),
      }
//@ proof before_stmt /^Ok\(match first/
      let s0 = old(self).bview();
      if s0.len() >= 3 { assert(s0.skip(1).take(2) =~= s0.subrange(1, 3)); }
      if s0.len() >= 5 { assert(s0.skip(1).take(4) =~= s0.subrange(1, 5)); }
      if s0.len() >= 9 { assert(s0.skip(1).take(8) =~= s0.subrange(1, 9)); }
//@ end

//@ fn tlv::ProtoBuf::get_tu64
//@ returns r
//@ implicit [C18,C06]
//@ bind arr /let mut (\w+) = \[0u8; 8\];/
//@ ensures#tu64 [C18,C10]
//    lengths 0..=8 decode to their big-endian value, longer fields are rejected
      old(self).bview().len() > 8 ==> r is Err,
      old(self).bview().len() <= 8 ==> (r is Ok && r->Ok_0 as nat == be_val(old(self).bview()))
//@ ghost after_stmt /^let mut \w+ = \[0u8; 8\];/
      broadcast use vstd::array::axiom_spec_array_fill_for_copy_type;   // (not in scope by default inside a trait's default method)
      let ghost arr0 = $arr@;
      assert($arr == vstd::array::spec_array_fill_for_copy_type::<u8, 8>(0u8));
      assert(forall|i: int| 0 <= i < 8 ==> arr0[i] == 0);
//@ proof before_stmt /^Ok\(u64::from_be_bytes/
      let s0 = old(self).bview();
      crate::lemma_be_lead_zeros(arr0.take(8 - s0.len()), s0);
//@ end

//@ fn tlv::SerializedTlvStream::from_bytes
//@ returns r
//@ implicit [C18,C06]
//@ bind buf /let mut (\w+) = s\.as_ref\(\);/
//@ bind entries /let mut (\w+): Vec<TlvEntry> = vec!\[\];/
//@ ensures#total_and_equals_parse [C18,C06,C10,C13]
      match parse(as_ref_bytes(s)) {
          None => r is Err,
          Some(es) => r is Ok && r->Ok_0.view_entries() == es,
      }
//@ loop 0
//@ invariant#parse_split [C18]
      parse(as_ref_bytes(s)) is None <==> parse($buf.bview()) is None
//@ invariant#parse_prefix [C18]
      parse(as_ref_bytes(s)) is Some ==> parse(as_ref_bytes(s))->0 == entries_view($entries@) + parse($buf.bview())->0
//@ decreases
      $buf.bview().len()
//@ ghost loop_begin 0
      let ghost b0 = $buf.bview(); let ghost e0 = $entries@;
//@ proof loop_end 0
      let e = EntryAbs { typ: typ, value: value@ };
      assert(entries_view($entries@) =~= entries_view(e0) + seq![e]);
      if parse(b0) is Some {
          assert(parse(b0)->0 =~= seq![e] + parse($buf.bview())->0);
          assert(entries_view(e0) + parse(b0)->0 =~= entries_view($entries@) + parse($buf.bview())->0);
      }
//@ end

//@ fn tlv::SerializedTlvStream::try_from
//@ returns r
//@ implicit [C18,C06]
//@ ensures#total [C18,C06]
//    total; the length prefix is skipped (bytes' Take::into_inner drops the limit again)
      value@.len() == 0 ==> (r is Ok && r->Ok_0.view_entries().len() == 0),
      (value@.len() > 0 && cs_dec(value@) is None) ==> r is Err,
      (value@.len() > 0 && cs_dec(value@) is Some) ==> (match parse(value@.skip((cs_dec(value@)->0).1 as int)) {
          None => r is Err,
          Some(es) => r is Ok && r->Ok_0.view_entries() == es,
      })
//@ end

/// what the length-prefixed entry point makes of a byte string (the clause of `try_from`, as a function)
pub open spec fn prefixed_parse(v: Seq<u8>) -> Option<Seq<EntryAbs>> {
    if v.len() == 0 { Some(Seq::<EntryAbs>::empty()) }
    else if cs_dec(v) is None { None }
    else { parse(v.skip((cs_dec(v)->0).1 as int)) }
}
//@ fn tlv::SerializedTlvStream::deserialize
//@ returns r
//@ implicit [C18,C06]
//@ ensures#payload_is_the_decoding_of_exactly_the_hex_text_or_an_error [C18,C06,C13,C10]
//    the onion payload the node sent: not a string / not hex / not a TLV stream => an error (the
//    hook answers with an error, nothing panics); otherwise exactly the records of those bytes
      match deserializer.string_spec() {
          None => r is Err,
          Some(text) => match crate::hex::hex_spec(text) {
              None => r is Err,
              Some(bytes) => match prefixed_parse(bytes) {
                  None => r is Err,
                  Some(es) => r is Ok && r->Ok_0.view_entries() == es,
              },
          },
      }
//@ end
