// ---- specs/config_state.rs: PluginState (src/plugin.rs) as built by main() -------------------------
impl<P: PaymentProvider> PluginState<P> {
    pub closed spec fn watcher_view(&self) -> Arc<BlockWatcher> { self.block_watcher }
    pub closed spec fn manager_view(&self) -> Arc<HtlcManager<BlockWatcher, EmailNotificationService, P, ClnDatastore>> { self.htlc_manager }
}
//@ fn plugin::PluginState::new
//@ returns r
//@ implicit [C06]
//@ ensures#holds_what_it_was_given [C20,C04,C06]
      r.watcher_view() == block_watcher && r.manager_view() == htlc_manager
//@ end
