// ---- specs/optread.rs: reading an option back (src/cln_plugin/options.rs, src/cln_plugin/mod.rs):
// the typed value main() gets from `cp.option(&OPTION_X)` is exactly the value Builder::handle_init
// stored under that option's name (unit initopts), or the plugin refuses to start (a panic of
// from_value on a value of another type; an error when no such option was registered).  Panics are
// refusals here (implicit tag REFUSAL is no property), like in specs/initopts.rs. ----------------
//@ fn options::OptionType::from_value
//@ returns r
//@ end
//@ fn options::OptionType::convert_default
//@ returns r
//@ end
//@ fn options::OptionType::get_value_type
//@ returns r
//@ end

//@ fn options::DefaultInteger::from_value
//@ returns r
//@ implicit [REFUSAL]
//@ ensures#an_integer_option_reads_as_exactly_the_stored_integer_or_refuses [C19,C04,C11,C12]
      match *value { Some(Value::Integer(i)) => r == i, _ => false }
//@ end
//@ fn options::DefaultInteger::convert_default
//@ returns r
//@ ensures#declared_default_is_offered_unchanged [C19]
      r == Some(Value::Integer(*value))
//@ end
//@ fn options::DefaultInteger::get_value_type
//@ returns r
//@ ensures#declared_as_int [C19]
      r is Integer
//@ end

//@ fn options::DefaultBoolean::from_value
//@ returns r
//@ implicit [REFUSAL]
//@ ensures#a_boolean_option_reads_as_exactly_the_stored_boolean_or_refuses [C19]
      match *value { Some(Value::Boolean(b)) => r == b, _ => false }
//@ end
//@ fn options::DefaultBoolean::convert_default
//@ returns r
//@ ensures#declared_default_is_offered_unchanged [C19]
      r == Some(Value::Boolean(*value))
//@ end
//@ fn options::DefaultBoolean::get_value_type
//@ returns r
//@ ensures#declared_as_bool [C19]
      r is Boolean
//@ end

//@ fn options::Flag::from_value
//@ returns r
//@ implicit [REFUSAL]
//@ ensures#a_flag_reads_as_exactly_the_stored_boolean_or_refuses [C19]
      match *value { Some(Value::Boolean(b)) => r == b, _ => false }
//@ end
//@ fn options::Flag::convert_default
//@ returns r
//@ ensures#a_flag_is_off_unless_given [C19]
      r == Some(Value::Boolean(false))
//@ end
//@ fn options::Flag::get_value_type
//@ returns r
//@ ensures#declared_as_flag [C19]
      r is Flag
//@ end

//@ fn options::ConfigOption::name
//@ returns r
//@ ensures#name [C19]
      r@ == self.name@
//@ end
//@ fn options::ConfigOption::description
//@ returns r
//@ ensures#description [C19]
      r@ == self.description@
//@ end
