// Oracle for C12, taken from the property statement (mathematical integers):
//   total >= amount + base_fee + floor(amount * ppm / 10^6)
pub open spec fn fee_rhs(base: u32, ppm: u32, amount: u64) -> int {
    amount as int + base as int + (amount as int * ppm as int) / 1_000_000
}
pub open spec fn fee_spec(p: messages::TrampolineRoutingPolicy, total: u64, amount: u64) -> bool {
    total as int >= fee_rhs(p.fee_base_msat, p.fee_proportional_millionths, amount)
}

