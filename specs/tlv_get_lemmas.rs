// ---- specs/tlv_get_lemmas.rs: first_of / remove_first in terms of the first index of the type ---
pub broadcast proof fn lemma_first_characterised(es: Seq<EntryAbs>, t: u64)
    ensures
        #![trigger first_of(es, t)]
        #![trigger remove_first(es, t)]
        match first_of(es, t) {
            None => (forall|j: int| 0 <= j < es.len() ==> (#[trigger] es[j]).typ != t) && remove_first(es, t) == es,
            Some(e) => exists|i: int| 0 <= i < es.len() && #[trigger] es[i] == e && e.typ == t
                && (forall|j: int| 0 <= j < i ==> (#[trigger] es[j]).typ != t)
                && remove_first(es, t) == es.remove(i),
        }
    decreases es.len()
{
    if es.len() == 0 {
    } else if es[0].typ == t {
        assert(es.remove(0) =~= es.drop_first());
    } else {
        let d = es.drop_first();
        lemma_first_characterised(d, t);
        match first_of(d, t) {
            None => {
                assert forall|j: int| 0 <= j < es.len() implies (#[trigger] es[j]).typ != t by { if j > 0 { assert(es[j] == d[j - 1]); } }
                assert(seq![es[0]] + d =~= es);
            }
            Some(e) => {
                let i = choose|i: int| 0 <= i < d.len() && #[trigger] d[i] == e && e.typ == t
                    && (forall|j: int| 0 <= j < i ==> (#[trigger] d[j]).typ != t) && remove_first(d, t) == d.remove(i);
                assert(es[i + 1] == d[i]);
                assert forall|j: int| 0 <= j < i + 1 implies (#[trigger] es[j]).typ != t by { if j > 0 { assert(es[j] == d[j - 1]); } }
                assert(seq![es[0]] + d.remove(i) =~= es.remove(i + 1));
            }
        }
    }
}
/// the abstract record at an index the code looked at (bridges `v[j]`, which the iteration model
/// speaks about, to `entries_view(v)[j]`, which first_of / remove_first speak about)
pub broadcast proof fn lemma_entries_view_index(v: Seq<tlv::TlvEntry>, j: int)
    requires 0 <= j < v.len()
    ensures #![trigger entries_view(v), v[j]]
        entries_view(v)[j] == (EntryAbs { typ: v[j].typ, value: v[j].value@ })
{}
