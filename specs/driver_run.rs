// ---- specs/driver_run.rs: the driver loop PluginDriver::run (src/cln_plugin/mod.rs) --------------
//@ fn cln_plugin::PluginDriver::dispatch_one
//    contract-less stub: it neither takes replies out of the channel nor writes to stdout (it has no
//    access to either); ASSUMED cancellation safe as a select! branch future (its only await before
//    any effect is input.next()) -- listed in evidence, see DESIGN.md limits
//@ end
//@ fn cln_plugin::PluginDriver::run
//    a service loop: termination is not claimed
//@ attr #[verifier::exec_allows_no_decreases_clause]
//@ ghostparam Tracked(t): Tracked<&mut Wire>
//@ implicit [C06,C17]
//@ requires#start [C17]
      old(t).taken == old(t).written
//@ loop 0
//@ invariant#every_reply_taken_from_the_channel_is_written_once_and_in_order [C17,C06,C13,C12,C11,C07]
      t.taken == t.written
//@ end

//@ fn cln_plugin::ConfiguredPlugin::start#io
//@ implicit [C06,C17]
//@ ensures#the_driver_reads_on_from_the_handshake_reader_with_what_it_has_buffered [C17,C06,C13,C12,C11,C07]
//    bytes of the next message that arrived in the same read as `init` are in the reader's buffer:
//    the driver must be given that reader, not a fresh one around the same stream
      r.1 == self.input && r.0 == self.output
//@ end
