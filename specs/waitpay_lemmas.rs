// ---- specs/waitpay_lemmas.rs (crate root): the node rely is transitive; wait facts are stable ----
pub broadcast proof fn lemma_node_rely_trans(a: Node, b: Node, c: Node)
    requires #[trigger] node_rely(a, b), #[trigger] node_rely(b, c)
    ensures node_rely(a, c)
{
    assert forall|id: PartId| c.pending.contains(id) implies a.pending.contains(id) by {
        assert(b.pending.contains(id));
    }
    assert forall|id: PartId| a.completed.contains_key(id) implies (c.completed.contains_key(id) && c.completed[id] == a.completed[id]) by {
        assert(b.completed.contains_key(id) && b.completed[id] == a.completed[id]);
    }
    assert forall|id: PartId| c.completed.contains_key(id) implies (a.completed.contains_key(id) || a.pending.contains(id)) by {
        if b.completed.contains_key(id) {
            assert(a.completed.contains_key(id) || a.pending.contains(id));
        } else {
            assert(b.pending.contains(id));
            assert(a.pending.contains(id));
        }
    }
}
pub proof fn lemma_node_rely_refl(a: Node)
    requires node_wf(a)
    ensures node_rely(a, a)
{}
