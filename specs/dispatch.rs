// ---- specs/dispatch.rs: the spawning tails of PluginDriver::dispatch_one (src/cln_plugin/mod.rs) --
//@ fn cln_plugin::PluginDriver::dispatch_one#notify
//@ implicit [C06,C20,C17]
//@ requires#callbacks_callable
      (forall|p: Plugin, v: Value| self.wildcard_subscription is Some ==> #[trigger] call_requires(self.wildcard_subscription->0, (p, v)))
      && (forall|k: Seq<char>, p: Plugin, v: Value| self.subscriptions.has(k) ==> #[trigger] call_requires(self.subscriptions.at(k), (p, v)))
//@ ensures#every_subscribed_handler_is_started_exactly_once [C20,C17]
//    a notification starts the wildcard handler (if any) and the handler subscribed to its method
//    (if any), each as a task of its own; nothing is awaited in place
      final(d).spawned == old(d).spawned
          + (if self.wildcard_subscription is Some { 1nat } else { 0nat })
          + (if self.subscriptions.has(method@) { 1nat } else { 0nat })
//@ end
//@ fn cln_plugin::PluginDriver::dispatch_one#request_spawn
//@ implicit [C06,C17]
//@ requires#callback_callable
      forall|p: Plugin, v: Value| call_requires(*callback, (p, v))
//@ ensures#the_request_handler_is_started_as_a_task_of_its_own [C17,C06,C13,C12,C11,C07]
//    on every return -- there is no error path between the lookup and the spawn on which the request is dropped
      r is Ok && final(d).spawned == old(d).spawned + 1
//@ end

//@ fn cln_plugin::PluginDriver::dispatch_one#request_lookup
//@ implicit [C06,C17]
//@ ensures#a_request_reaches_the_handler_registered_for_its_own_method_with_its_own_params [C17,C06,C13,C12,C11,C07]
//    the handler is the one registered under exactly the request's `method` (setconfig: the
//    setconfig handler), the params are the request's own `params`; anything else is an error
      match (if jget(*request, "method"@) is Some { jstr(jget(*request, "method"@)->0) } else { None }) {
          None => r is Err,
          Some(name) => {
              let cb = if name == "setconfig"@ { self.setconfig_callback }
                       else if self.rpcmethods.has(name) { Some(self.rpcmethods.at(name)) } else { None };
              match (cb, jget(*request, "params"@)) {
                  (Some(f), Some(p)) => r is Ok && *(r->Ok_0).0 == f && (r->Ok_0).1 == p,
                  _ => r is Err,
              }
          },
      }
//@ end
