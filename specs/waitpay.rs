// ---- specs/waitpay.rs: PayPaymentProvider::wait_payment (src/payment_provider.rs) --------------
pub proof fn lemma_wait_fact_stable(id: PartId, r: crate::rpc::WaitRes, a: Node, b: Node)
    requires crate::rpc::wait_fact(id, r, a), node_rely(a, b), node_wf(a)
    ensures crate::rpc::wait_fact(id, r, b)
{}

//@ fn payment_provider::PayPaymentProvider::wait_payment
//@ returns r
//@ ghostparam Tracked(n): Tracked<&mut Node>
//@ implicit [C06,C15]
//@ bind tasks /let mut (\w+) = FuturesUnordered::new\(\);/
//@ bind res /(?:while|if) let Some\((\w+)\) = \w+\.next\(\)/
//@ bind pending /for \w+ in (\w+)\.payments/
//@ requires#wf
      node_wf(*old(n)) && payment_hash == old(n).hash
//@ ensures#rely
      node_rely(*old(n), *final(n))
//@ ensures#some_is_the_preimage_of_a_completed_part [C15,C01,C02,C16,C09]
      (r is Ok && r->Ok_0 is Some) ==>
          exists|id: PartId| final(n).completed.contains_key(id) && final(n).completed[id] == r->Ok_0->0@
//@ ensures#none_only_if_nothing_pending_or_complete [C15,C02,C05,C08,C16,C03,C09]
      (r is Ok && r->Ok_0 is None) ==> nothing_live(*final(n))
//@ closure 0
//@ cparams p: &ListsendpaysPayments
//@ creturns o: Option<Secret>
//@ ensures#projects_the_preimage [C15,C16,C01]
      o == p.payment_preimage
//@ ghost before_stmt /^let mut $tasks = FuturesUnordered::new\(\);/
      let ghost PL = $pending.payments.v@; let ghost n0 = *n;
//@ loop 0
//@ iter it
//@ invariant#for_loop
      vstd::std_specs::iter::IteratorSpec::remaining(&it.snapshot@) == PL
      && node_wf(*n) && node_rely(n0, *n) && node_rely(*old(n), *n) && n.hash == payment_hash
      && $tasks.view().len() == it.index@
      && (forall|j: int| 0 <= j < $tasks.view().len() ==> (#[trigger] $tasks.view()[j]).0 == part_id(PL[j]) && crate::rpc::wait_fact($tasks.view()[j].0, $tasks.view()[j].1, *n))
//@ invariant#every_pending_part_is_in_the_pending_listing [C15,C16,C02,C05,C08]
      forall|id: PartId| #![trigger n.pending.contains(id)] n.pending.contains(id) ==> listed(PL, id)
//@ invariant#no_part_completed_unseen_between_the_two_listings [C15,C02,C05,C08,C16,C03,C09]
//    a completed part is either reported by the completed-listing (then we returned its preimage)
//    or it was still pending when the pending-listing was taken
      forall|id: PartId| #![trigger n.completed.contains_key(id)] n.completed.contains_key(id) ==> listed(PL, id)
//@ ghost loop_begin 0
      let ghost nb = *n; let ghost tb = $tasks.view();
//@ proof loop_end 0
      assert forall|j: int| 0 <= j < tb.len() implies crate::rpc::wait_fact(tb[j].0, tb[j].1, *n) by {
          lemma_wait_fact_stable(tb[j].0, tb[j].1, nb, *n);
      }
//@ ghost before_stmt /^(?:while|if) let Some\($res\) = $tasks\.next\(\)/
      let ghost mut tg = $tasks.view();
      proof {
          assert forall|i: int| 0 <= i < PL.len() implies (gone(part_id(#[trigger] PL[i]), *n)
                  || exists|j: int| 0 <= j < $tasks.view().len() && (#[trigger] $tasks.view()[j]).0 == part_id(PL[i])) by {
              assert($tasks.view()[i].0 == part_id(PL[i]));
          }
      }
//@ loop 1
//@ invariant#while_loop [C15,C02,C05,C08,C16,C03]
      node_wf(*n) && tg == $tasks.view() && node_rely(*old(n), *n)
      && (forall|j: int| 0 <= j < $tasks.view().len() ==> crate::rpc::wait_fact((#[trigger] $tasks.view()[j]).0, $tasks.view()[j].1, *n))
      && (forall|i: int| 0 <= i < PL.len() ==> (gone(part_id(#[trigger] PL[i]), *n)
              || exists|j: int| 0 <= j < $tasks.view().len() && (#[trigger] $tasks.view()[j]).0 == part_id(PL[i])))
      && (forall|id: PartId| #![trigger n.pending.contains(id)] n.pending.contains(id) ==> listed(PL, id))
      && (forall|id: PartId| #![trigger n.completed.contains_key(id)] n.completed.contains_key(id) ==> listed(PL, id))
//@ ensures#all_results_consumed [C15,C02,C05,C08,C16,C03]
      $tasks.view().len() == 0
//@ decreases
      $tasks.view().len()
//@ ghost loop_begin 1
      let ghost k = choose|k: int| 0 <= k < tg.len() && tg[k].1 == $res && $tasks.view() == tg.remove(k);
      proof { assert(crate::rpc::wait_fact(tg[k].0, $res, *n)); }
//@ proof loop_end 1
      assert(gone(tg[k].0, *n));
      assert forall|i: int| 0 <= i < PL.len() implies (gone(part_id(#[trigger] PL[i]), *n)
              || exists|j: int| 0 <= j < $tasks.view().len() && (#[trigger] $tasks.view()[j]).0 == part_id(PL[i])) by {
          if !gone(part_id(PL[i]), *n) {
              let j0 = choose|j: int| 0 <= j < tg.len() && (#[trigger] tg[j]).0 == part_id(PL[i]);
              if j0 < k { assert($tasks.view()[j0] == tg[j0]); }
              else if j0 > k { assert($tasks.view()[j0 - 1] == tg[j0]); }
          }
      }
      tg = $tasks.view();
//@ proof before_stmt /^Ok\(None\)$/
      assert forall|id: PartId| !n.pending.contains(id) && !n.completed.contains_key(id) by {
          if n.pending.contains(id) || n.completed.contains_key(id) {
              assert(listed(PL, id));
              let i = choose|i: int| 0 <= i < PL.len() && part_id(#[trigger] PL[i]) == id;
              assert(gone(part_id(PL[i]), *n));
          }
      }
//@ end
