// ---- contract of fee_sufficient (src/messages.rs); oracle in specs/fee_spec.rs ----
//@ fn messages::TrampolineRoutingPolicy::fee_sufficient
//@ returns r
//@ implicit [C12,C06]
//@ ensures#exact_outside_mul_overflow_region [C12,C03]
//    region complement of known finding F-C12-a
      (invoice_msat as int * self.fee_proportional_millionths as int) <= u64::MAX
          ==> r == fee_spec(*self, total_msat, invoice_msat)
//@ ensures#exact_inside_mul_overflow_region [C12]
      (invoice_msat as int * self.fee_proportional_millionths as int) > u64::MAX
          ==> r == fee_spec(*self, total_msat, invoice_msat)
//@ ensures#sound_never_true_when_insufficient [C12,C03]
//    the direction that protects funds holds everywhere, also inside the F-C12-a region
      r ==> fee_spec(*self, total_msat, invoice_msat)
//@ end
