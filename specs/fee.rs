// Oracle for C12, taken from the property statement (mathematical integers):
//   total >= amount + base_fee + floor(amount * ppm / 10^6)
pub open spec fn fee_rhs(base: u32, ppm: u32, amount: u64) -> int {
    amount as int + base as int + (amount as int * ppm as int) / 1_000_000
}
pub open spec fn fee_spec(p: messages::TrampolineRoutingPolicy, total: u64, amount: u64) -> bool {
    total as int >= fee_rhs(p.fee_base_msat, p.fee_proportional_millionths, amount)
}

//@ fn messages::TrampolineRoutingPolicy::fee_sufficient
//@ returns r
//@ implicit [C12,C06]
//@ ensures#exact_outside_mul_overflow_region [C12,C03]
//    region complement of known finding F-C12-a
      (invoice_msat as int * self.fee_proportional_millionths as int) <= u64::MAX
          ==> r == fee_spec(*self, total_msat, invoice_msat)
//@ ensures#exact_inside_mul_overflow_region [C12]
      (invoice_msat as int * self.fee_proportional_millionths as int) > u64::MAX
          ==> r == fee_spec(*self, total_msat, invoice_msat)
//@ ensures#sound_never_true_when_insufficient [C12,C03]
//    the direction that protects funds holds everywhere, also inside the F-C12-a region
      r ==> fee_spec(*self, total_msat, invoice_msat)
//@ end
