// ---- failure message encoding: spec function (the real encode() is decided by Kani over the
// full input domain against exactly this layout; Verus units use it as an assumed contract) ----
pub open spec fn be16(x: u16) -> Seq<u8> { seq![(x / 256) as u8, (x % 256) as u8] }
pub open spec fn be32(x: u32) -> Seq<u8> {
    seq![(x / 16777216) as u8, ((x / 65536) % 256) as u8, ((x / 256) % 256) as u8, (x % 256) as u8]
}
pub open spec fn encode_spec(r: messages::HtlcFailReason) -> Seq<u8> {
    match r {
        messages::HtlcFailReason::TemporaryNodeFailure => seq![0x20u8, 2u8],
        messages::HtlcFailReason::TemporaryTrampolineFailure => seq![0x20u8, 25u8],
        messages::HtlcFailReason::TrampolineFeeOrExpiryInsufficient(p) =>
            seq![0x20u8, 26u8] + be32(p.fee_base_msat) + be32(p.fee_proportional_millionths) + be16(p.cltv_expiry_delta),
    }
}
