// ---- contracts of the HtlcAcceptedResponse constructors (src/messages.rs) ----
//@ fn messages::HtlcAcceptedResponse::resolve
//@ returns r
//@ ensures#is_resolve
      r == (messages::HtlcAcceptedResponse::Resolve { payment_key })
//@ end
//@ fn messages::HtlcAcceptedResponse::temporary_node_failure
//@ returns r
//@ ensures#is_fail
      r is Fail && r->failure_message@ == seq![0x20u8, 2u8]
//@ end
//@ fn messages::HtlcAcceptedResponse::trampoline_fee_or_expiry_insufficient
//@ returns r
//@ ensures#is_fail_with_policy [C12]
      r is Fail && r->failure_message@ == encode_spec(HtlcFailReason::TrampolineFeeOrExpiryInsufficient(policy))
//@ end
//@ fn messages::HtlcAcceptedResponse::temporary_trampoline_failure
//@ returns r
//@ ensures#is_fail
      r is Fail && r->failure_message@ == seq![0x20u8, 25u8]
//@ end
//@ fn messages::HtlcFailReason::encode
//@ returns r
//@ ensures#enc
      r@ == encode_spec(*self)
//@ end

