"""Kani leaf harnesses (filled in later): loop-free harnesses over kani::any()
for scalar/slice leaf functions; concrete counterexamples + native replay."""
from .core import Undecided


def run_harnesses(prop, harnesses, tier):
    return []


def replay_native(d):
    print("native replay not available")
    return 1
