"""Kani leaf harnesses (src/verif_hooks.rs in /repo, cfg(kani)): loop-free, full-domain statements of
leaf-function contracts.  Used (a) as the deciding check for bit-level encodings that Verus cannot
express (to_be_bytes), (b) to obtain concrete counterexamples for scalar obligations, which are then
replayed natively against the real compiled function (`cargo test --features verif verif_replay`)."""
import json, os, re, subprocess, time, hashlib
from .core import Undecided, VERIF, REPO

TARGET = os.path.join(VERIF, ".cache", "kani-target")
MODPATH = "verif_hooks::kani_harnesses::"

# harness -> how to decode its kani::any() values, in call order (name, width in bytes)
LAYOUT = {
    "fee_sufficient_no_panic": [("base", 4), ("ppm", 4), ("delta", 2), ("total", 8), ("amount", 8)],
    "fee_sufficient_exact_outside_mul_overflow_region": [("base", 4), ("ppm", 4), ("total", 8), ("amount", 8)],
    "fee_sufficient_exact_inside_mul_overflow_region": [("base", 4), ("ppm", 4), ("total", 8), ("amount", 8)],
}
LAYOUT["tu64_decodes_exactly"] = [(f"b{i}", 1) for i in range(9)] + [("len", 8)]
REPLAY_TARGET = {
    "tu64_decodes_exactly": "get_tu64",
    "fee_sufficient_no_panic": "fee_sufficient",
    "fee_sufficient_exact_outside_mul_overflow_region": "fee_sufficient",
    "fee_sufficient_exact_inside_mul_overflow_region": "fee_sufficient",
}


def _cargo_kani(harnesses, extra=(), timeout=900):
    env = dict(os.environ, CARGO_NET_OFFLINE="true")
    cmd = ["cargo", "kani", "--target-dir", TARGET]
    for h in harnesses:
        cmd += ["--harness", h]
    cmd += list(extra)
    # one Kani run at a time: concurrent checks share the target directory, and the clean-up below kills
    # every cbmc process (found when C10 / C12 / C18 were run in parallel: the first to finish killed the
    # solvers of the others, which then reported "harness not found" -> a spurious exit 2)
    import fcntl
    os.makedirs(os.path.dirname(TARGET), exist_ok=True)
    lock = open(os.path.join(os.path.dirname(TARGET), "kani.lock"), "w")
    fcntl.flock(lock, fcntl.LOCK_EX)
    t0 = time.time()
    try:
        p = subprocess.run(["timeout", "-k", "5", str(timeout)] + cmd, cwd=REPO, capture_output=True, text=True, env=env)
        out = p.stdout + "\n" + p.stderr
        if p.returncode in (124, 137):
            out += "\nKANI-TIMEOUT"
    finally:
        subprocess.run("pkill -f '[c]bmc --no-malloc-may' 2>/dev/null", shell=True)
        fcntl.flock(lock, fcntl.LOCK_UN)
        lock.close()
    return cmd, out, time.time() - t0


def _split(out):
    blocks = {}
    cur = None
    for line in out.split("\n"):
        m = re.match(r"Checking harness (\S+?)\.\.\.", line)
        if m:
            cur = m.group(1).split("::")[-1]
            blocks[cur] = []
        elif cur:
            blocks[cur].append(line)
    return {k: "\n".join(v) for k, v in blocks.items()}


def _concrete(harness, text):
    """Decode `concrete_vals` of Kani's concrete playback into named inputs."""
    lay = LAYOUT.get(harness)
    if not lay:
        return None
    vals = re.findall(r"vec!\[([0-9,\s]*)\]", text)
    # first match is the outer vec in some versions; keep only byte lists of plausible width
    lists = []
    for v in vals:
        nums = [int(x) for x in v.replace("\n", " ").split(",") if x.strip()]
        if nums and all(0 <= n <= 255 for n in nums) and len(nums) in (1, 2, 4, 8, 16):
            lists.append(nums)
    if len(lists) < len(lay):
        return None
    out = {}
    for (name, width), bs in zip(lay, lists):
        if len(bs) != width:
            return None
        out[name] = str(int.from_bytes(bytes(bs), "little"))
    return out


def run_harnesses(prop, harnesses, tier, failing=()):
    """harnesses: list of dict(harness, obligation, fn, role, tier, when_fails, timeout).
    role "deciding": must be proved (else undecided / violation);
    role "witness": only produces a concrete counterexample; a timeout is recorded, not an error."""
    if not os.path.exists(os.path.join(REPO, "Cargo.toml")):
        # scratch source trees (self-test mutants) carry no Cargo project: Kani part is skipped
        return []
    res = []
    for h in harnesses:
        role = h.get("role", "deciding")
        wanted = (h.get("tier", "quick") == "quick") or tier == "thorough"
        if h.get("when_fails"):
            wanted = any(f == h["when_fails"] for f in failing)
        if not wanted:
            continue
        cmd, out, wall = _cargo_kani([h["harness"]], extra=h.get("flags", ()), timeout=h.get("timeout", 600))
        b = _split(out).get(h["harness"])
        r = {"harness": h["harness"], "obligation": h["obligation"], "fn": h.get("fn"), "role": role,
             "cmd": " ".join(cmd).replace(VERIF + "/", ""), "wall_s": round(wall, 1), "backend": "Kani 0.68 / CBMC 6.11"}
        if "KANI-TIMEOUT" in out:
            r.update(status="timeout" if role == "witness" else "undecided", summary=f"no verdict within {h.get('timeout', 600)} s", output="")
        elif b is None:
            r.update(status="undecided", summary="harness not found in Kani output (build error?)", output=out[-2000:])
        elif "VERIFICATION:- SUCCESSFUL" in b:
            m = re.search(r"\*\* (\d+) of (\d+) failed", b)
            r.update(status="proved", summary=f"{m.group(2) if m else '?'} checks, 0 failed (" + h.get("scope", "loop-free harness over the full input domain: complete") + ")", output="")
            r["checks"] = int(m.group(2)) if m else 0
        elif "VERIFICATION:- FAILED" in b:
            failed = re.findall(r"Failed Checks: (.*)", b)
            r.update(status="failed", summary="; ".join(failed[:3]) or "verification failed", output=b[-3000:])
            cmd2, out2, _ = _cargo_kani([h["harness"]], list(h.get("flags", ())) + ["-Z", "concrete-playback", "--concrete-playback=print"], timeout=h.get("timeout", 600))
            inp = _concrete(h["harness"], out2)
            if inp and h["harness"] == "tu64_decodes_exactly":
                n = min(int(inp["len"]), 9)
                inp = {"hex": "".join("%02x" % int(inp[f"b{i}"]) for i in range(n))}
            if inp:
                r["inputs"] = inp
                r["replay_target"] = REPLAY_TARGET.get(h["harness"])
            r["output"] += "\n--- concrete playback ---\n" + out2[-2500:]
        else:
            r.update(status="undecided", summary="no verdict (out of memory / build error)", output=(b or out)[-2000:])
        res.append(r)
    return res


def replay_native(d):
    """Re-run a recorded counterexample against the real compiled function."""
    path = os.path.join(VERIF, "replays", "native-" + hashlib.sha1(json.dumps(d.get("inputs"), sort_keys=True).encode()).hexdigest()[:8] + ".json")
    json.dump({"target": d.get("replay_target") or "fee_sufficient", "inputs": d["inputs"]}, open(path, "w"))
    env = dict(os.environ, VERIF_REPLAY=path, CARGO_NET_OFFLINE="true")
    p = subprocess.run(["cargo", "test", "--offline", "--features", "verif", "verif_replay", "--", "--nocapture"],
                       cwd=REPO, capture_output=True, text=True, env=env)
    lines = [l for l in (p.stdout + p.stderr).split("\n") if l.startswith("REPLAY") or "test result" in l or "panicked at" in l]
    print("\n".join(lines))
    reproduced = "test result: FAILED" in p.stdout
    print("violation reproduced on the real code" if reproduced else "the real code agrees with the reference on this input")
    return 1 if reproduced else 0
