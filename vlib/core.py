"""Extraction / assembly core.

Everything that reaches Verus from /repo is a *byte range copy* of the original
file with a closed set of logged edits (DESIGN.md section 4).  Pieces keep their
origin so that every Verus diagnostic maps back to /repo/src/<file>:<line> or to
a labelled contract clause.
"""
import json, os, re, subprocess, hashlib, bisect

VERIF = os.path.dirname(os.path.dirname(os.path.abspath(__file__)))
REPO = os.environ.get("VERIF_REPO", "/repo")
VX = os.path.join(VERIF, "vx", "target", "release", "vx")


INLINE = {}  # (unit, src rel) -> set of helper names to inline at their call sites (E12)
AUTO = {}   # src rel -> set of item names pulled in automatically (helpers the extracted text calls)


class Undecided(Exception):
    """Lost anchor / unsupported construct / tool failure: exit 2, never a VIOLATION."""


class Src:
    _cache = {}

    def __init__(self, rel):
        self.rel = rel
        self.path = os.path.join(REPO, "src", rel)
        if not os.path.exists(self.path):
            raise Undecided(f"lost anchor: {self.path} does not exist")
        self.data = open(self.path, "rb").read()
        out = subprocess.run([VX, self.path], capture_output=True, text=True)
        if out.returncode != 0:
            raise Undecided(f"vx failed on {self.path}: {out.stderr.strip()}")
        self.index = json.loads(out.stdout)[self.path]
        self.line_starts = [0]
        for i, b in enumerate(self.data):
            if b == 10:
                self.line_starts.append(i + 1)

    @classmethod
    def get(cls, rel):
        if rel not in cls._cache:
            cls._cache[rel] = Src(rel)
        return cls._cache[rel]

    def line_of(self, off):
        return bisect.bisect_right(self.line_starts, off)

    def text(self, s, e):
        return self.data[s:e].decode("utf-8")

    def _walk(self, items):
        for it in items:
            yield it
            if "items" in it:
                yield from self._walk(it["items"])

    def find(self, qual, kind=None, trait=None, nth=None, header_rx=None):
        """Find an item by qualified name. For impls, qual is the self type and
        `trait` selects `impl Trait for T` (None = inherent)."""
        hits = []
        for it in self._walk(self.index["items"]):
            if it.get("qual") != qual:
                continue
            if kind and it["kind"] != kind:
                continue
            if it["kind"] == "impl" and it.get("trait") != trait:
                continue
            if header_rx is not None and not re.search(header_rx, self.text(it["start"], it.get("open", it["span"][1]))):
                continue
            hits.append(it)
        if nth is not None:
            if nth >= len(hits):
                raise Undecided(f"lost anchor: {self.rel}: {kind or 'item'} {qual} #{nth}")
            return hits[nth]
        if len(hits) != 1:
            raise Undecided(
                f"lost anchor: {self.rel}: {kind or 'item'} {qual}"
                f"{' (trait ' + trait + ')' if trait else ''} resolves to {len(hits)} places")
        return hits[0]

    def find_fn_in(self, container, name):
        hits = [f for f in container.get("items", []) if f["kind"] == "fn" and f["name"] == name]
        if len(hits) != 1:
            raise Undecided(f"lost anchor: {self.rel}: fn {name} in {container.get('qual')} resolves to {len(hits)} places")
        return hits[0]

    def attrs_in(self, s, e):
        return [a for a in self.index["attrs"] if s <= a["span"][0] and a["span"][1] <= e]


def _rx(pat):
    """Statement anchors are written as the code is formatted today; rustfmt may break a line after
    `=`, so a literal ` = ` in an anchor matches any whitespace around the sign."""
    return pat.replace(" = ", r"\s*=\s*")


def shape_signature(src, it):
    """Field names of a struct / variant names of an enum, in order (comments and attributes ignored)."""
    t = src.text(*it["span"])
    t = re.sub(r"//[^\n]*", "", t)
    t = re.sub(r"/\*.*?\*/", "", t, flags=re.S)
    t = re.sub(r"#\[[^\]]*\]", "", t)
    a = t.find("{")
    if a < 0:
        return []
    body = t[a + 1:t.rfind("}")]
    parts, depth, cur = [], 0, ""
    for ch in body:
        if ch in "<({[":
            depth += 1
        elif ch in ">)}]":
            depth -= 1
        if ch == "," and depth == 0:
            parts.append(cur); cur = ""
        else:
            cur += ch
    parts.append(cur)
    out = []
    for p_ in parts:
        m = re.match(r"\s*(?:pub(?:\([^)]*\))?\s+)?(\w+)", p_)
        if m:
            out.append(m.group(1))
    return out


def serde_signature(src, it):
    """The serde attributes of an item (whitespace-normalised, in order) and which serde derives it has."""
    sig = []
    for a in src.attrs_in(it["span"][0], it["span"][1]):
        nm = a["name"].split("::")[-1]
        txt = re.sub(r"\s+", "", src.text(*a["span"]))
        if nm == "serde":
            sig.append(txt)
        elif nm == "derive":
            ds = sorted(set(re.findall(r"\w+", txt)) & {"Serialize", "Deserialize"})
            if ds:
                sig.append("derive:" + ",".join(ds))
    return sig


_ATTR_BASELINE = None


def attr_baseline():
    global _ATTR_BASELINE
    if _ATTR_BASELINE is None:
        p = os.path.join(VERIF, "specs", "attr_baseline.json")
        _ATTR_BASELINE = json.load(open(p)) if os.path.exists(p) else {}
    return _ATTR_BASELINE


class Piece:
    __slots__ = ("text", "src", "start", "tag", "fn")

    def __init__(self, text, src=None, start=None, tag=None, fn=None):
        self.text = text
        self.src = src
        self.start = start
        self.tag = tag
        self.fn = fn


class Clause:
    def __init__(self, kind, label, tags, text, where):
        self.kind = kind      # requires / ensures / invariant / decreases / censures ...
        self.label = label
        self.tags = tags      # list of property ids, [] = shared
        self.text = text
        self.where = where    # human description (spec file:line)

    def applies(self, prop):
        return prop is None or not self.tags or prop in self.tags


class FnSpec:
    def __init__(self, key):
        self.key = key
        self.returns = None
        self.implicit = []
        self.requires = []
        self.ensures = []
        self.loops = {}      # ord -> {"invariant":[Clause], "decreases": text, "ensures":[...]}
        self.closures = {}   # ord -> {"params":[...], "returns": str, "ensures":[Clause], "requires":[Clause]}
        self.ghostparam = None
        self.proofs = []     # (anchor dict, text)
        self.attrs = []      # verus attributes to put in front of the fn
        self.binds = []      # (NAME, regex with one group): `$NAME` in clause text = the local the code names there
        self.decreases = None
        self.used = False


CL_RE = re.compile(r"^//@\s*(\w+)(?:#([\w.\-]+))?\s*(?:\[([^\]]*)\])?\s*(.*)$")


def parse_spec(path):
    """Parse specs/<unit>.rs.  Returns (verbatim_text_pieces, {fnkey: FnSpec})."""
    verb = []
    fns = {}
    cur = None
    cur_clause = None
    cur_loop = None
    cur_closure = None
    lines = open(path).read().split("\n")

    def flush():
        nonlocal cur_clause
        if cur_clause is not None:
            cur_clause.text = cur_clause.text.strip().rstrip(",").strip()
            cur_clause = None

    for ln, line in enumerate(lines, 1):
        m = CL_RE.match(line.strip()) if line.strip().startswith("//@") else None
        if not m:
            if cur_clause is not None:
                cur_clause.text += "\n" + line
            elif cur is None:
                verb.append((ln, line))
            elif line.strip() and not line.strip().startswith("//"):
                raise Undecided(f"{path}:{ln}: text outside a clause inside //@ fn block")
            continue
        d, label, tags, rest = m.group(1), m.group(2), m.group(3), m.group(4).strip()
        tags = [t.strip() for t in tags.split(",") if t.strip()] if tags else []
        where = f"{os.path.relpath(path, VERIF)}:{ln}"
        flush()
        if d == "fn":
            cur = FnSpec(rest)
            if rest in fns:
                raise Undecided(f"{path}:{ln}: duplicate //@ fn {rest}")
            fns[rest] = cur
            cur_loop = cur_closure = None
        elif d == "end":
            cur = None
            cur_loop = cur_closure = None
        elif cur is None:
            raise Undecided(f"{path}:{ln}: directive outside //@ fn block")
        elif d == "returns":
            cur.returns = rest
        elif d == "implicit":
            cur.implicit = tags
        elif d == "ghostparam":
            cur.ghostparam = rest
        elif d == "attr":
            cur.attrs.append(rest)
        elif d == "bind":
            nm, rx = rest.split(None, 1)
            cur.binds.append((nm, rx.strip().strip("/")))
        elif d == "iter":
            cur_loop["iter"] = rest
        elif d == "loop":
            cur_loop = cur.loops.setdefault(int(rest), {"invariant": [], "decreases": None, "ensures": [], "except": [], "iter": None})
            cur_closure = None
        elif d == "closure":
            cur_closure = cur.closures.setdefault(int(rest), {"params": None, "returns": None, "ensures": [], "requires": []})
            cur_loop = None
        elif d == "cparams":
            cur_closure["params"] = [p.strip() for p in rest.split(";")]
        elif d == "creturns":
            cur_closure["returns"] = rest
        elif d in ("requires", "ensures", "invariant", "decreases", "invariant_except_break"):
            c = Clause(d, label or f"l{ln}", tags, rest, where)
            cur_clause = c
            if cur_closure is not None and d in ("requires", "ensures"):
                cur_closure[d].append(c)
            elif cur_loop is not None and d == "invariant":
                cur_loop["invariant"].append(c)
            elif cur_loop is not None and d == "invariant_except_break":
                cur_loop["except"].append(c)
            elif cur_loop is not None and d == "ensures":
                cur_loop["ensures"].append(c)
            elif cur_loop is not None and d == "decreases":
                cur_loop["decreases"] = c
            elif d == "requires":
                cur.requires.append(c)
            elif d == "ensures":
                cur.ensures.append(c)
            elif d == "decreases":
                cur.decreases = c
            else:
                raise Undecided(f"{path}:{ln}: misplaced {d}")
        elif d in ("proof", "ghost"):
            # //@ proof <where> <anchor...>   where: loop_begin N | before_stmt /regex/ | after_stmt /regex/ | body_begin | body_end
            c = Clause(d, label or f"p{ln}", tags, "", where)
            cur.proofs.append((rest, c))
            cur_clause = c
        else:
            raise Undecided(f"{path}:{ln}: unknown directive {d}")
    flush()
    return verb, fns


ENV_TAG_RE = re.compile(r"//\s*#([\w.\-]+)?\s*\[([^\]]*)\]\s*$")


def _code_ranges(data, s, e):
    """Byte ranges of data[s:e] outside comments and string literals."""
    out, i, st = [], s, s
    while i < e:
        c2 = data[i:i + 2]
        if c2 == b"//":
            out.append((st, i)); j = data.find(b"\n", i, e); i = e if j < 0 else j; st = i
        elif c2 == b"/*":
            out.append((st, i)); j = data.find(b"*/", i + 2, e); i = e if j < 0 else j + 2; st = i
        elif data[i:i + 1] == b'"':
            out.append((st, i)); i += 1
            while i < e and data[i:i + 1] != b'"':
                i += 2 if data[i:i + 1] == b"\\" else 1
            i += 1; st = i
        else:
            i += 1
    out.append((st, e))
    return [(a, b) for (a, b) in out if b > a]


class Unit:
    """Assembles one Verus input file."""

    E1_DROP = {"instrument", "async_trait", "cfg_attr", "derive", "serde", "doc", "allow", "tokio::main", "automock"}

    def __init__(self, name, prop=None, canary=False):
        self.name = name
        self.prop = prop
        self.canary = canary
        self.pieces = []
        self.edits_log = []          # catalogue entries actually applied
        self.obligations = []        # dicts: name, kind, tags, fn
        self.functions = []          # contracted real fns: dict(qual, file, sha256, lines)
        self.specs = {}
        self.trusted = []            # scan results
        self.envfiles = []
        self.ghost_callees = {}      # name -> ghost arg text
        self.drop_async = False
        self._fnctx = None
        self.slice_assumptions = []
        self.sites = {}
        self.implicit_tags = {}
        self.stubs = []
        self.auto_done = set()
        self.auto_included = []
        self.canary_names = []
        self.e7 = False
        self.strict_specs = set()

    # ---- raw output -------------------------------------------------------
    def raw(self, text, tag=None):
        self.pieces.append(Piece(text, tag=tag, fn=self._fnctx))

    def orig(self, src, s, e):
        self.pieces.append(Piece(src.text(s, e), src=src, start=s, fn=self._fnctx))

    def auto_here(self, src, modname):
        """Emit helper items of `src` that the extracted functions turned out to reference but the
        unit does not list (found by name after a first Verus run).  consts/types: verbatim.
        Free fns without `self`: verbatim body plus a *reflection contract*: the same body text is
        emitted once more as a spec fn and the exec fn ensures `r == <name>__spec(args)`; Verus
        checks the exec body against it, so this is the helper's strongest postcondition obtained
        mechanically (works only for pure, loop-free helpers; otherwise rustc/Verus rejects it and
        the run is undecided)."""
        for name in sorted(AUTO.get((self.name, src.rel), ())):
            hits = [it for it in src._walk(src.index["items"]) if it.get("name") == name and it["kind"] in ("fn", "const", "type", "struct", "enum")
                    and not it.get("qual", "").startswith("tests::") and "::" not in it.get("qual", "")]
            if len(hits) != 1:
                raise Undecided(f"auto-include: {name} in {src.rel} resolves to {len(hits)} items")
            it = hits[0]
            if (src.rel, name) in self.auto_done:
                continue
            self.auto_done.add((src.rel, name))
            if it["kind"] != "fn":
                self.item(src, it["qual"], it["kind"])
                self.auto_included.append(f"src/{src.rel}: {it['kind']} {name} (verbatim)")
                continue
            sig = it["sig"]
            if any(i.get("self") for i in sig["inputs"]) or not sig["output"] or sig["async"]:
                raise Undecided(f"auto-include: helper {name} in {src.rel} is not a pure free fn (inline it: E12)")
            args = ", ".join(src.text(*i["pat"]) for i in sig["inputs"])
            params = src.text(sig["paren_open"], sig["paren_close"] + 1)
            gen = src.text(*sig["generics"]) if sig["generics"] else ""
            ret = src.text(*sig["output"])
            body = src.text(*it["body"])
            vis = "pub open " if src.text(it["start"], sig["fn"]).strip().startswith("pub") else ""
            self.raw(f"{vis}spec fn {name}__spec{gen}{params} -> {ret} {body}\n")
            key = f"{modname}::{name}"
            sp_ = FnSpec(key)
            sp_.returns = "r"
            sp_.ensures = [Clause("ensures", "reflects_its_own_body", [], f"r == {name}__spec({args})", "auto")]
            self.specs[key] = sp_
            self.fn(src, it, key)
            self.auto_included.append(f"src/{src.rel}: fn {name} (reflection contract)")

    def canary_decls(self):
        self.pieces.append(Piece("", tag="__canary_decls__"))

    # ---- env / specs ------------------------------------------------------
    def env(self, rel):
        path = os.path.join(VERIF, "env", rel)
        self.envfiles.append(path)
        for ln, line in enumerate(open(path).read().split("\n"), 1):
            m = ENV_TAG_RE.search(line)
            tag = None
            if m:
                # tags attribute a failing env clause to properties; nothing is dropped (a dropped
                # `requires` line can change the meaning of the lines around it)
                tags = [t.strip() for t in m.group(2).split(",") if t.strip()]
                tag = {"env": f"env/{rel}:{ln}", "label": m.group(1) or f"l{ln}", "tags": tags}
            else:
                tag = {"env": f"env/{rel}:{ln}", "label": None, "tags": []}
            self.raw(line + "\n", tag=tag)

    def spec(self, rel, shared=False):
        path = os.path.join(VERIF, "specs", rel)
        self.envfiles.append(path)
        verb, fns = parse_spec(path)
        for ln, line in verb:
            m = ENV_TAG_RE.search(line)
            tags = []
            label = None
            if m:
                tags = [t.strip() for t in m.group(2).split(",") if t.strip()]
                label = m.group(1)
            self.raw(line + "\n", tag={"env": f"specs/{rel}:{ln}", "label": label, "tags": tags})
        for k, v in fns.items():
            if k in self.specs:
                raise Undecided(f"duplicate spec for {k}")
            self.specs[k] = v
            if not shared:
                self.strict_specs.add(k)

    # ---- items ------------------------------------------------------------
    KEEP_DERIVES = {"Default"}

    def _strip_attrs_edits(self, src, s, e):
        eds = []
        for a in src.attrs_in(s, e):
            if a["name"].split("::")[-1] in self.E1_DROP:
                a0, a1 = a["span"]
                txt = src.text(a0, a1)
                repl = ""
                if a["name"] == "derive":
                    names = [x.strip() for x in txt[txt.index("(") + 1:txt.rindex(")")].split(",")]
                    keep = [x for x in names if x in self.KEEP_DERIVES]
                    if keep:
                        repl = "#[derive(" + ", ".join(keep) + ")]"
                if not repl:
                    # swallow trailing whitespace/newline
                    while a1 < e and src.data[a1:a1 + 1] in (b" ", b"\t"):
                        a1 += 1
                    if src.data[a1:a1 + 1] == b"\n":
                        a1 += 1
                eds.append((a0, a1, repl, None))
                self._log("E1", src, a0, txt, repl)
            else:
                raise Undecided(f"attribute #[{a['name']}] at {src.rel}:{src.line_of(a['span'][0])} is outside the E1 catalogue")
        return eds

    def _log(self, kind, src, off, old, new):
        self.edits_log.append({"edit": kind, "at": f"src/{src.rel}:{src.line_of(off)}", "old": old[:80], "new": new[:80]})

    def _apply(self, src, s, e, edits):
        """Emit src[s:e] with edits [(a,b,text,tag)] (sorted, non-overlapping)."""
        # an edit that lies strictly inside a replaced range (e.g. E4 inside a statement removed by
        # the join expansion) is subsumed by the outer edit
        outer = [(a, b) for (a, b, _, _) in edits if b > a]
        def _sub(e_):
            return [(oa, ob) for (oa, ob) in outer if oa <= e_[0] and e_[1] <= ob and (oa, ob) != (e_[0], e_[1]) and not (e_[0] == e_[1] == oa) and not (e_[0] == e_[1] == ob)]
        subsumed = {}
        for e_ in edits:
            for o in _sub(e_):
                subsumed.setdefault(o, []).append(e_)
        edits = [e_ for e_ in edits if not _sub(e_)]
        # at one position: pure insertions first (in the order they were added), then the edit that
        # replaces text starting there
        edits = sorted(enumerate(edits), key=lambda p: (p[1][0], 0 if p[1][1] == p[1][0] else 1, p[0]))
        pos = s
        for _, (a, b, text, tag) in edits:
            if a < pos or b > e:
                raise Undecided(f"overlapping edit at {src.rel}:{src.line_of(a)} ({a},{b}) pos={pos}")
            if a > pos:
                self.orig(src, pos, a)
            if callable(text):
                # E12: the edits that fall inside the replaced call (e.g. inside its arguments)
                # are handed to the emitter, which applies them to the argument texts it copies
                text(subsumed.get((a, b), []))
            elif text:
                self.raw(text, tag=tag)
            pos = b
        if pos < e:
            self.orig(src, pos, e)

    DUR_CONST_RX = re.compile(r"^(pub(?:\([a-z]+\))?\s+)?const\s+(\w+)\s*:\s*Duration\s*=\s*(Duration::from_(secs|millis)\(\s*([\d_\s\*\+\(\)]+?)\s*\))\s*;\s*$", re.S)

    def item(self, src, qual, kind=None, extra_attr=None):
        """Copy a struct/enum/const/type verbatim (E1 only).  E13: a `const N: Duration =
        Duration::from_secs(<integer literal expression>);` cannot be evaluated by Verus in a const
        context; it is emitted as `exec const` with the same name, type and initializer plus a
        reflection contract (`dur_ns(N) == <literal> * 10^9`, checked by Verus against the assumed
        spec of from_secs) and a spec function `N__ns()` with that value, so contracts can name it."""
        it = src.find(qual, kind)
        s, e = it["span"]
        if it["kind"] == "const":
            m = self.DUR_CONST_RX.match(src.text(s, e))
            if m:
                vis, name, init, unit_, lit = m.group(1) or "", m.group(2), m.group(3), m.group(4), m.group(5)
                mult = "1_000_000_000" if unit_ == "secs" else "1_000_000"
                self.raw(f"pub open spec fn {name}__ns() -> nat {{ (({lit}) as nat) * {mult} }}\n")
                self.raw(f"{vis}exec const {name}: Duration\n    ensures crate::dur_ns({name}) == {name}__ns()\n{{ ")
                a = src.data.find(init.encode(), s, e)
                self.orig(src, a, a + len(init.encode()))
                self.raw(" }\n")
                self._log("E13", src, s, src.text(s, e)[:70], "exec const + reflection contract + spec fn " + name + "__ns()")
                return it
        if it["kind"] in ("struct", "enum"):
            # E1 drops serde attributes; the (de)serialization assumptions of env/ were stated for the
            # attributes recorded in specs/attr_baseline.json -- any other set leaves them unjustified
            base = attr_baseline().get(f"{src.rel}::{it.get('qual')}")
            if isinstance(base, dict):
                shape0, base = base.get("shape"), base.get("serde")
                shape1 = shape_signature(src, it)
                if shape0 is not None and shape0 != shape1:
                    # contracts and representation invariants were written for these fields; with state
                    # added or removed a correct implementation may need an invariant no contract states
                    raise Undecided(f"the fields of {it.get('qual')} ({src.rel}) are not the ones its contracts were written for: "
                                    f"{shape1} instead of {shape0}")
            now = serde_signature(src, it)
            if base is not None and base != now:
                raise Undecided(f"E1: the serde attributes of {it.get('qual')} ({src.rel}) are not the ones the (de)serialization "
                                f"assumptions were stated for: {now} instead of {base}")
        if extra_attr:
            self.raw(extra_attr + "\n")
        self._apply(src, s, e, self._strip_attrs_edits(src, s, e))
        self.raw("\n")
        return it

    DERIVED_SIG = {
        "Clone": ("clone", "fn clone(&self) -> (r: Self) ensures r == *self"),
        "PartialEq": ("eq", "fn eq(&self, other: &Self) -> (r: bool) ensures r == (*self == *other)"),
    }

    def derived(self, src, qual, trait, modname, path=None):
        """Structural `Clone` / `PartialEq` of a real struct or enum.  E1 drops `#[derive(..)]`, so the
        structural meaning is supplied as an assumed impl -- but ONLY while the real item still
        derives the trait.  If it does not, the hand-written `impl Trait for T` of the same file is
        extracted instead and its real body is checked against the contract the derive used to give
        (`r == *self` / `r == (*self == *other)`); if there is neither, the unit is undecided."""
        hits = [x for x in src._walk(src.index["items"]) if x.get("qual") == qual and x["kind"] in ("struct", "enum")]
        if len(hits) != 1:
            raise Undecided(f"lost anchor: {src.rel}: struct/enum {qual} resolves to {len(hits)} places")
        it = hits[0]
        ders = set()
        for a in src.attrs_in(it["span"][0], it["span"][1]):
            if a["name"].split("::")[-1] == "derive":
                ders |= set(re.findall(r"\w+", src.text(*a["span"]))) - {"derive"}
        meth, sig = self.DERIVED_SIG[trait]
        ty = path or qual
        if trait in ders:
            self.raw(f"impl {trait} for {ty} {{   // the real item derives {trait}: structural (assumed, listed)\n"
                     f"    #[verifier::external_body]\n    {sig} {{ unimplemented!() }}\n}}\n")
            self._log("E1", src, it["span"][0], f"#[derive({trait})] on {qual}", "structural impl (assumed)")
            return
        key = f"{modname}::{qual}::{meth}"
        spec = FnSpec(key)
        spec.returns = "r"
        text = "r == *self" if trait == "Clone" else "r == (*self == *other)"
        spec.ensures = [Clause("ensures", f"{trait.lower()}_means_what_the_derive_meant", [], text,
                               f"vlib/core.py derived(): {qual} no longer derives {trait}")]
        self.specs[key] = spec
        im = src.find(qual, "impl", trait=trait)
        f = src.find_fn_in(im, meth)
        pn = [p_ for p_ in re.findall(r"(\w+)\s*:", src.text(f["sig"]["paren_open"], f["sig"]["paren_close"])) if p_ != "self"] if "paren_open" in f["sig"] else []
        if trait == "PartialEq" and pn and pn[0] != "other":
            spec.ensures[0].text = f"r == (*self == *{pn[0]})"
        self.impl(src, qual, [meth], modname, trait=trait, header=(f"impl {trait} for {ty}" if path else None))

    def item_range_sha(self, src, it):
        s, e = it["span"]
        return hashlib.sha256(src.data[s:e]).hexdigest()

    # ---- functions ----------------------------------------------------------
    def _clauses(self, cls):
        """Clause projection: nothing is dropped (a requires clause is also an assumption of the
        body, an ensures clause an assumption of the callers).  Verus names only the FIRST failing
        requires clause of a call, so the clauses tagged with the property being checked are put
        first: a failing clause of another property can then never mask one of this property."""
        if self.prop is None:
            return list(cls)
        def pri(c):
            return 0 if self.prop in c.tags else (1 if not c.tags else 2)
        return sorted(cls, key=pri)

    def _resolve_binds(self, src, it, key, spec):
        """`//@ bind NAME /regex/`: clause text may call a local of the function `$NAME`; the name
        the code actually uses is read off the function text by the regex (one group, one distinct
        match), so that renaming the local does not lose the contract."""
        if not spec.binds or getattr(spec, "_bound", False):
            return
        text = src.text(it["start"], it["span"][1])
        sub = {}
        for nm, rx in spec.binds:
            vals = set(m.group(1) for m in re.finditer(_rx(rx), text))
            if len(vals) != 1:
                raise Undecided(f"lost anchor: bind {nm} of {key}: /{rx}/ matches {len(vals)} distinct names")
            sub[nm] = vals.pop()
        def f(t):
            for nm, v in sub.items():
                t = re.sub(r"\$" + re.escape(nm) + r"\b", v, t)
            return t
        for c in spec.requires + spec.ensures:
            c.text = f(c.text)
        for lp in spec.loops.values():
            for c in lp["invariant"] + lp.get("ensures", []):
                c.text = f(c.text)
            dc = lp.get("decreases")
            if isinstance(dc, str):
                lp["decreases"] = f(dc)
            elif dc is not None and hasattr(dc, "text"):
                dc.text = f(dc.text)
        for cl in spec.closures.values():
            for c in cl.get("requires", []) + cl.get("ensures", []):
                c.text = f(c.text)
        spec.proofs = [(f(a), c) for (a, c) in spec.proofs]
        for _, c in spec.proofs:
            c.text = f(c.text)
        spec._bound = True

    def _register(self, name, kind, tags, fn, where=None):
        self.obligations.append({"name": name, "kind": kind, "tags": tags, "fn": fn, "where": where})

    def fn(self, src, it, key, stub=False):
        """Emit one real function with catalogued edits. `key` is the spec key
        (<mod>::<qual>)."""
        spec = self.specs.get(key)
        if spec is None:
            spec = FnSpec(key)
        spec.used = True
        self._fnctx = key
        s0 = it["start"]
        s_end = it["span"][1]
        if stub:
            return self._stub(src, it, key, spec)
        self._resolve_binds(src, it, key, spec)
        sig = it["sig"]
        eds = []
        # E1: attributes in front of the fn are simply not copied (we start at `start`);
        # attributes inside the body:
        for a in src.attrs_in(it["start"], it["span"][1]):
            if a["name"].split("::")[-1] in self.E1_DROP:
                eds.append((a["span"][0], a["span"][1], "", None))
            else:
                raise Undecided(f"attribute #[{a['name']}] inside {key} outside E1 catalogue")
        for a in it["attrs"]:
            if a["name"].split("::")[-1] not in self.E1_DROP:
                raise Undecided(f"attribute #[{a['name']}] on {key} outside E1 catalogue")
            self._log("E1", src, a["span"][0], src.text(*a["span"]), "")
        nodes = it["nodes"]
        # E14: `e?` on a Result written out as the match the language reference defines it to be,
        # so that the error conversion is a visible call of the file's own From impl
        if getattr(self, "desugar_try", False):
            for n in nodes:
                if n["k"] == "try":
                    eds.append((n["span"][0], n["span"][0], "(match ", None))
                    eds.append((n["pos"], n["pos"] + 1, " { Ok(__v) => __v, Err(__e) => return Err(::core::convert::From::from(__e)) })", None))
                    self._log("E14", src, n["pos"], "?", "match .. { Ok(v) => v, Err(e) => return Err(From::from(e)) }")
        # E2
        if self.drop_async:
            if sig["async"]:
                a0, a1 = sig["async"]
                while src.data[a1:a1 + 1] == b" ":
                    a1 += 1
                eds.append((a0, a1, "", None))
                self._log("E2", src, a0, "async", "")
            for n in nodes:
                if n["k"] == "await":
                    a0, a1 = n["span"]
                    # also swallow whitespace between base and `.await`
                    eds.append((n["base_end"], a1, "", None))
                    self._log("E2", src, a0, ".await", "")
        else:
            if any(n["k"] == "await" for n in nodes) and not sig["async"]:
                pass
        # E15b: `tokio::spawn(async move { BODY });` as a statement whose value is unused -- BODY is the
        # body of the task this function starts; it is verified in place as a block (its concurrency
        # with the rest of the function is not modelled: the unit states what the block may rely on)
        if getattr(self, "spawn_inline", False):
            asyncs = [x for x in nodes if x["k"] == "async"]
            for n in nodes:
                if n["k"] == "call" and n["path"].split("::")[-1] == "spawn" and len(n.get("args", [])) == 1:
                    a0, a1 = n["args"][0]
                    hit = [x for x in asyncs if x["span"][0] == a0 and x["span"][1] == a1]
                    if not hit:
                        continue
                    st = [x for x in nodes if x["k"] == "stmt" and x["kind"] != "let" and x["span"][0] == n["span"][0]]
                    if not st or not src.text(*st[0]["span"]).rstrip().endswith(";"):
                        raise Undecided(f"E15b: the task handle of the spawn in {key} is used; the block cannot be verified in place")
                    b = src.data.find(b"{", a0, a1)
                    eds.append((n["span"][0], b, "", None))
                    eds.append((a1, n["span"][1], "", None))
                    self._log("E15b", src, a0, "tokio::spawn(async move {..});", "the task's body as a block in place")
        # E16: `A[i..].copy_from_slice(S)` (a mutable tail of a local array as the receiver: Verus has no
        # mutable range index) -> `crate::copy_into_tail(&mut A, i, S)`, an env function with the std
        # semantics (panics unless i <= N and S.len() == N - i; afterwards A = A[..i] ++ S)
        for n in nodes:
            if n["k"] == "mcall" and n["name"] == "copy_from_slice" and n["nargs"] == 1:
                m = re.match(r"^(\w+)\[(.+)\.\.\]$", src.text(*n["recv"]).strip(), re.S)
                if m:
                    eds.append((n["recv"][0], n["open"] + 1, f"crate::copy_into_tail(&mut {m.group(1)}, {m.group(2)}, ", None))
                    self._log("E16", src, n["recv"][0], src.text(n["recv"][0], n["open"] + 1), "crate::copy_into_tail(&mut A, i, ")
        # E3
        for n in nodes:
            if n["k"] == "macro" and n["path"].split("::")[-1] == "select":
                if "arms" not in n:
                    raise Undecided(f"select! in {key} does not parse as `pat = fut => body` arms")
                eds += self._select_edits(src, n, nodes)
            if n["k"] == "macro" and n["path"].split("::")[-1] == "join":
                eds += self._join_edits(src, it, n, key)
        # E4
        gp = spec.ghostparam
        if gp:
            pos = sig["paren_close"]
            sep = "" if (sig["ninputs"] == 0 or sig["inputs_trailing"]) else ", "
            eds.append((pos, pos, sep + gp, None))
            self._log("E4", src, pos, "", gp)
        callsite_ord = {}
        for n in nodes:
            cname = None
            if n["k"] == "mcall" and ("m:" + n["name"]) in self.ghost_callees:
                cname = "m:" + n["name"]
            elif n["k"] == "call" and ("c:" + n["path"]) in self.ghost_callees:
                cname = "c:" + n["path"]
            if cname is not None and isinstance(self.ghost_callees[cname], tuple):
                garg, rx = self.ghost_callees[cname]
                if not re.search(rx, src.text(*n["recv"])):
                    cname = None
            if cname is not None:
                garg = self.ghost_callees[cname]
                if isinstance(garg, tuple):
                    garg = garg[0]
                pos = n["close"]
                sep = "" if (n["nargs"] == 0 or n["trailing"]) else ", "
                eds.append((pos, pos, sep + garg, None))
                self._log("E4", src, pos, "", garg)
        # E12: contract-less helpers of the same file are inlined at their call sites
        eds += self._inline_edits(src, it, key, depth=0)
        # E5: return binder
        rname = spec.returns
        if rname and sig["output"]:
            o0, o1 = sig["output"]
            eds.append((o0, o0, f"({rname}: ", None))
            eds.append((o1, o1, ")", None))
        # E5: contract before body `{` or `;`
        at = it["body"][0] if it["body"] else it["semi"]
        req = self._clauses(spec.requires)
        ens = self._clauses(spec.ensures)
        txt = []
        if req:
            txt.append(("\n    requires\n", None))
            for c in req:
                txt.append((f"        {c.text},\n", self._ctag(key, c)))
        if self.canary and it["body"]:
            # per-function uninterpreted flag: provable only if the fn's precondition/environment
            # is contradictory; callers merely learn that the flag is false (no poisoning)
            cn = f"__canary_{len(self.canary_names)}"
            self.canary_names.append(cn)
            ens = ens + [Clause("ensures", "__canary", [], f"!crate::{cn}()", "canary")]
        if ens:
            txt.append(("\n    ensures\n", None))
            for c in ens:
                txt.append((f"        {c.text},\n", self._ctag(key, c)))
                if c.label != "__canary":
                    self._register(f"{self.name}::{key}::ensures#{c.label}", "ensures", c.tags, key, c.where)
        if spec.decreases is not None:
            txt.append((f"\n    decreases {spec.decreases.text},\n", self._ctag(key, spec.decreases)))
        for t, tag in txt:
            eds.append((at, at, t, tag))
        if not it["body"] and (req or ens):
            pass
        # loops
        for n in nodes:
            if n["k"] != "loop":
                continue
            ls = spec.loops.get(n["ord"])
            if ls is None:
                # a loop without invariants cannot be verified: whatever Verus would report after it
                # is an artefact of the missing contract, not a property violation
                raise Undecided(f"loop #{n['ord']} of {key} ({src.rel}:{src.line_of(n['span'][0])}) has no contract in specs/: the function is outside what this unit can decide")
            pos = n["body_open"]
            lt = []
            if ls.get("iter"):
                # E5: name the ghost iterator of a `for` loop (`for x in it: expr`), Verus-only syntax
                hdr = src.text(n["span"][0], n["body_open"])
                mi = re.search(r"\sin\s", hdr)
                if n["kind"] != "for" or not mi:
                    raise Undecided(f"iter naming on loop {n['ord']} of {key}: not a for loop")
                ipos = n["span"][0] + mi.end()
                eds.append((ipos, ipos, ls["iter"] + ": ", None))
            inv = self._clauses(ls["invariant"])
            exc = self._clauses(ls["except"])
            if exc:
                lt.append(("\n    invariant_except_break\n", None))
                for c in exc:
                    lt.append((f"        {c.text},\n", self._ctag(key, c, f"loop{n['ord']}")))
                    self._register(f"{self.name}::{key}::loop{n['ord']}::invariant#{c.label}", "invariant", c.tags, key, c.where)
            if inv:
                lt.append(("\n    invariant\n", None))
                for c in inv:
                    lt.append((f"        {c.text},\n", self._ctag(key, c, f"loop{n['ord']}")))
                    self._register(f"{self.name}::{key}::loop{n['ord']}::invariant#{c.label}", "invariant", c.tags, key, c.where)
            lens = self._clauses(ls["ensures"])
            if lens:
                lt.append(("\n    ensures\n", None))
                for c in lens:
                    lt.append((f"        {c.text},\n", self._ctag(key, c, f"loop{n['ord']}")))
            if ls["decreases"] is not None:
                c = ls["decreases"]
                lt.append((f"\n    decreases {c.text},\n", self._ctag(key, c, f"loop{n['ord']}")))
                self._register(f"{self.name}::{key}::loop{n['ord']}::decreases", "decreases", c.tags, key, c.where)
            for t, tag in lt:
                eds.append((pos, pos, t, tag))
        # closures (E8)
        for n in nodes:
            if n["k"] != "closure":
                continue
            cs = spec.closures.get(n["ord"])
            if cs is None:
                continue
            if cs["params"]:
                if len(cs["params"]) != len(n["inputs"]):
                    raise Undecided(f"closure {n['ord']} of {key}: arity changed")
                for (p0, p1), ptxt in zip(n["inputs"], cs["params"]):
                    eds.append((p0, p1, ptxt, None))
            hdr = ""
            if cs["returns"]:
                if n["has_output"]:
                    raise Undecided(f"closure {n['ord']} of {key} already has a return type")
                hdr += f" -> ({cs['returns']})"
            pos = n["or2"]
            eds.append((pos, pos, hdr, None))
            creq = self._clauses(cs["requires"])
            cens = self._clauses(cs["ensures"])
            if creq:
                eds.append((pos, pos, " requires ", None))
                for c in creq:
                    eds.append((pos, pos, f"{c.text}, ", self._ctag(key, c, f"closure{n['ord']}")))
            if cens:
                eds.append((pos, pos, " ensures ", None))
                for c in cens:
                    eds.append((pos, pos, f"{c.text}, ", self._ctag(key, c, f"closure{n['ord']}")))
                    self._register(f"{self.name}::{key}::closure{n['ord']}::ensures#{c.label}", "ensures", c.tags, key, c.where)
            if not n["body_is_block"]:
                b0, b1 = n["body"]
                eds.append((b0, b0, "{ ", None))
                # the closing brace goes in FRONT of anything else inserted at the same position
                # (e.g. the E4 ghost argument of the call the closure is the last argument of)
                eds.insert(0, (b1, b1, " }", None))
            self._log("E8", src, n["span"][0], src.text(n["span"][0], n["or2"]), hdr)
        # proof insertions (ghost only)
        nloops = len([x for x in nodes if x["k"] == "loop"])
        for anchor, c in spec.proofs:
            if not c.applies(self.prop) and False:
                continue
            ma = re.match(r"loop_(?:begin|end)\s+(\d+)$", anchor.strip())
            if ma and int(ma.group(1)) >= nloops:
                # the hint belongs to a trailing loop the code no longer has (e.g. `while let` became
                # `if let`): without the loop there is nothing to hint; the function's own clauses decide
                continue
            pos = self._proof_pos(src, it, anchor, key)
            pre = ""
            if isinstance(pos, tuple):
                pre, pos = ";", pos[1]
            body = f"proof {{ {c.text} }}" if c.kind == "proof" else c.text
            eds.append((pos, pos, f"{pre}\n {body}\n", self._ctag(key, c, "proof")))
            self._log("E9", src, pos, "", f"ghost {c.kind} block ({c.where})")
        # E7: ghost unlock marker where a mutex guard goes out of scope
        if self.e7:
            eds += self._e7(src, it, key)
        # implicit obligations
        self._implicit(src, it, key, spec)
        for a in spec.attrs:
            self.raw(a + "\n")
        self._apply(src, s0, s_end, eds)
        self.raw("\n")
        self._fnctx = None
        s, e = it["span"]
        self.functions.append({
            "fn": key, "file": f"src/{src.rel}",
            "lines": [src.line_of(s), src.line_of(e - 1)],
            "sha256": hashlib.sha256(src.data[s:e]).hexdigest(),
            "has_body": bool(it["body"]),
        })

    def _stub(self, src, it, key, spec):
        """Contract-only copy of a real fn: signature verbatim + the SAME clauses from specs/,
        body replaced by an external_body stub.  The fn is proved in another unit (or by Kani)."""
        sig = it["sig"]
        eds = []
        end = it["body"][0] if it["body"] else it["semi"]
        if self.drop_async and sig["async"]:
            a0, a1 = sig["async"]
            while src.data[a1:a1 + 1] == b" ":
                a1 += 1
            eds.append((a0, a1, "", None))
        if spec.ghostparam:
            pos = sig["paren_close"]
            sep = "" if (sig["ninputs"] == 0 or sig["inputs_trailing"]) else ", "
            eds.append((pos, pos, sep + spec.ghostparam, None))
        if spec.returns and sig["output"]:
            o0, o1 = sig["output"]
            eds.append((o0, o0, f"({spec.returns}: ", None))
            eds.append((o1, o1, ")", None))
        self.raw("#[verifier::external_body]\n")
        self._apply(src, it["start"], end, eds)
        req = self._clauses(spec.requires)
        ens = self._clauses(spec.ensures)
        if req:
            self.raw("\n    requires\n")
            for c in req:
                self.raw(f"        {c.text},\n", tag=self._ctag(key, c))
        if ens:
            self.raw("\n    ensures\n")
            for c in ens:
                self.raw(f"        {c.text},\n", tag=self._ctag(key, c))
        self.raw("{ unimplemented!() }\n")
        self._fnctx = None
        s, e = it["span"]
        self.stubs.append({"fn": key, "file": f"src/{src.rel}", "sha256": hashlib.sha256(src.data[s:e]).hexdigest()})

    def slice(self, src, it, key, first_rx, last_rx, header, tail="", wrap_return=None, note=None):
        """E6: a contiguous statement range of a real fn, wrapped in a generated fn whose header
        (name, parameters = the slice's free variables, return type) is given by the unit.
        Statement text is copied verbatim with the same catalogued edits as whole functions
        (E2/E3/E4/E8/E9); `return X` inside the slice becomes `return <wrap_return>(X)`."""
        spec = self.specs.get(key)
        if spec is None:
            spec = FnSpec(key)
        spec.used = True
        nodes = it["nodes"]
        pick_first = first_rx.startswith("first:")
        after = first_rx.startswith("after:")
        first_rx = first_rx[6:] if (pick_first or after) else first_rx
        frx, lrx = re.compile(_rx(first_rx)), re.compile(_rx(last_rx))
        firsts = [n for n in nodes if n["k"] == "stmt" and frx.match(src.text(*n["span"]))]
        if after:
            # the slice starts with the statement that FOLLOWS the matching one in the same block
            nxt = []
            for f0 in firsts:
                sib = [n for n in nodes if n["k"] == "stmt" and n["block"] == f0["block"] and n["idx"] == f0["idx"] + 1]
                nxt += sib
            firsts = nxt
        if pick_first and firsts:
            firsts = sorted(firsts, key=lambda n: n["span"][0])[:1]
        before = last_rx.startswith("before:")
        if before:
            lrx = re.compile(_rx(last_rx[7:]))
        lasts = [n for n in nodes if n["k"] == "stmt" and lrx.match(src.text(*n["span"]))]
        if before:
            # the slice ends with the statement that PRECEDES the matching one in the same block
            prv = []
            for l0 in lasts:
                prv += [n for n in nodes if n["k"] == "stmt" and n["block"] == l0["block"] and n["idx"] == l0["idx"] - 1]
            lasts = prv
        if len(firsts) != 1 or len(lasts) != 1 or firsts[0]["block"] != lasts[0]["block"]:
            raise Undecided(f"lost anchor: slice {key}: first matches {len(firsts)}, last matches {len(lasts)} statements")
        s0, s1 = firsts[0]["span"][0], lasts[0]["span"][1]
        sub = [n for n in nodes if "span" in n and s0 <= n["span"][0] and n["span"][1] <= s1]
        fake = {"nodes": sub, "body": [s0, s1], "span": [s0, s1], "sig": None}
        self._fnctx = key
        eds = []
        for a in src.attrs_in(s0, s1):
            if a["name"].split("::")[-1] in self.E1_DROP:
                eds.append((a["span"][0], a["span"][1], "", None))
        # E15: `tokio::spawn(async move { .. })` -- the block is the body of ANOTHER task; it is replaced
        # by an opaque task value (its text is not part of this slice; where it matters it is a
        # slice of its own, e.g. dispatch_one#reply)
        asyncs = [n for n in sub if n["k"] == "async"]
        spawned = []
        if getattr(self, "e15", False):
            for n in sub:
                if n["k"] == "call" and n["path"].split("::")[-1] == "spawn" and len(n.get("args", [])) == 1:
                    a0, a1 = n["args"][0]
                    hit = [x for x in asyncs if x["span"][0] == a0 and x["span"][1] == a1]
                    if hit:
                        eds.append((a0, a1, "crate::spawned_task()", None))
                        spawned.append((a0, a1))
                        self._log("E15", src, a0, "tokio::spawn(async move {..})", "async block -> opaque task value")
        if self.drop_async:
            for n in sub:
                if n["k"] == "await":
                    if any(a0 <= n["span"][0] and n["span"][1] <= a1 for (a0, a1) in spawned):
                        continue
                    if getattr(self, "forbid_await", False):
                        # the slice runs while a message taken from the input is held by a future that
                        # select! may drop: a suspension point here is an obligation that cannot be met
                        eds.append((n["base_end"], n["span"][1], ".await_point()", None))
                        self._log("E2", src, n["span"][0], ".await", ".await_point() (suspension point under obligation)")
                    else:
                        eds.append((n["base_end"], n["span"][1], "", None))
                        self._log("E2", src, n["span"][0], ".await", "")
        for n in sub:
            if n["k"] == "macro" and n["path"].split("::")[-1] == "select":
                eds += self._select_edits(src, n)
        for n in sub:
            cname = None
            if n["k"] == "mcall" and ("m:" + n["name"]) in self.ghost_callees:
                cname = "m:" + n["name"]
            elif n["k"] == "call" and ("c:" + n["path"]) in self.ghost_callees:
                cname = "c:" + n["path"]
            if cname is not None and isinstance(self.ghost_callees[cname], tuple):
                garg, rx = self.ghost_callees[cname]
                if not re.search(rx, src.text(*n["recv"])):
                    cname = None
            if cname is not None:
                garg = self.ghost_callees[cname]
                if isinstance(garg, tuple):
                    garg = garg[0]
                sep = "" if (n["nargs"] == 0 or n["trailing"]) else ", "
                eds.append((n["close"], n["close"], sep + garg, None))
                self._log("E4", src, n["close"], "", garg)
        # E17: in a unit where a panic IS the specified behaviour ("refuses to start"), `x.unwrap()` /
        # `x.expect(..)` is written `x.unwrap_or_refuse()`: an env method with the same value on
        # Some / Ok and no normal return otherwise (postcondition `self is Some`), so that the contract
        # can tell "panics" from "goes on with some other value" (Verus itself continues after a
        # failed precondition of unwrap with an arbitrary value)
        if getattr(self, "refusing_unwrap", False):
            for n in sub:
                if n["k"] == "mcall" and n["name"] in ("unwrap", "expect"):
                    eds.append((n["method"][0], n["close"] + 1, "unwrap_or_refuse()", None))
                    self._log("E17", src, n["method"][0], "." + n["name"] + "(..)", ".unwrap_or_refuse()")
        eds += self._inline_edits(src, {"nodes": sub, "sig": it.get("sig"), "is_slice": True}, key, depth=0)
        if wrap_return:
            for n in sub:
                if n["k"] == "return":
                    txt = src.text(*n["span"])
                    m = re.match(r"return\s+", txt)
                    if not m:
                        raise Undecided(f"slice {key}: bare `return` cannot be wrapped")
                    a = n["span"][0] + m.end()
                    eds.append((a, a, wrap_return + "(", None))
                    eds.append((n["span"][1], n["span"][1], ")", None))
        # contract
        self.raw(header)
        req = self._clauses(spec.requires)
        ens = self._clauses(spec.ensures)
        if req:
            self.raw("\n    requires\n")
            for c in req:
                self.raw(f"        {c.text},\n", tag=self._ctag(key, c))
        if self.canary:
            cn = f"__canary_{len(self.canary_names)}"
            self.canary_names.append(cn)
            ens = ens + [Clause("ensures", "__canary", [], f"!crate::{cn}()", "canary")]
        if ens:
            self.raw("\n    ensures\n")
            for c in ens:
                self.raw(f"        {c.text},\n", tag=self._ctag(key, c))
                if c.label != "__canary":
                    self._register(f"{self.name}::{key}::ensures#{c.label}", "ensures", c.tags, key, c.where)
        self.raw("{\n")
        for anchor, c in spec.proofs:
            pos = self._proof_pos(src, {"nodes": sub, "body": [s0 - 1, s1 + 1], "sig": {"output": None}}, anchor, key)
            pre = ""
            if isinstance(pos, tuple):
                pre, pos = ";", pos[1]
            body = f"proof {{ {c.text} }}" if c.kind == "proof" else c.text
            eds.append((pos, pos, f"{pre}\n {body}\n", self._ctag(key, c, "proof")))
        self._implicit(src, {"nodes": sub, "body": [s0, s1]}, key, spec)
        self._apply(src, s0, s1, eds)
        self.raw("\n" + tail + "\n}\n")
        self._fnctx = None
        self._log("E6", src, s0, f"statements {src.line_of(s0)}-{src.line_of(s1)} of {key}", header.strip()[:80])
        self.functions.append({"fn": key, "file": f"src/{src.rel}", "lines": [src.line_of(s0), src.line_of(s1 - 1)],
                               "sha256": hashlib.sha256(src.data[s0:s1]).hexdigest(), "has_body": True,
                               "slice": True})
        if note:
            self.slice_assumptions.append(note)

    def _ctag(self, key, c, sub=None):
        return {"clause": c.label, "kind": c.kind, "tags": c.tags, "fn": key, "sub": sub, "where": c.where}

    def _proof_pos(self, src, it, anchor, key):
        parts = anchor.split(None, 1)
        how = parts[0]
        arg = parts[1].strip() if len(parts) > 1 else ""
        nodes = it["nodes"]
        if how == "body_begin":
            return it["body"][0] + 1
        if how == "body_end":
            b0 = [n for n in nodes if n["k"] == "block"][0]
            st = [n for n in nodes if n["k"] == "stmt" and n["block"] == b0["id"]]
            if st and st[-1]["kind"] == "expr":
                if it["sig"]["output"]:
                    raise Undecided(f"proof body_end on {key}: body ends in a value expression")
                return ("semi", st[-1]["span"][1])
            return it["body"][1] - 1
        if how in ("loop_begin", "loop_end"):
            ls = [n for n in nodes if n["k"] == "loop" and n["ord"] == int(arg)]
            if len(ls) != 1:
                raise Undecided(f"lost anchor: loop {arg} of {key}")
            return ls[0]["body_open"] + 1 if how == "loop_begin" else ls[0]["body_close"] - 1
        if how in ("before_stmt", "after_stmt"):
            rx = re.compile(_rx(arg.strip("/")))
            hits = [n for n in nodes if n["k"] == "stmt" and rx.match(src.text(*n["span"]))]
            if len(hits) != 1:
                raise Undecided(f"lost anchor: stmt /{arg}/ of {key} resolves to {len(hits)} places")
            return hits[0]["span"][0] if how == "before_stmt" else hits[0]["span"][1]
        raise Undecided(f"bad proof anchor {anchor}")

    LOCK_RX = re.compile(r"\.lock\(\)\s*(\.await)?\s*;\s*$")

    def _e7(self, src, it, key):
        eds = []
        nodes = it["nodes"]
        for n in nodes:
            if n["k"] != "stmt" or n["kind"] != "let" or not self.LOCK_RX.search(src.text(*n["span"])):
                continue
            blk = [b for b in nodes if b["k"] == "block" and b["id"] == n["block"]][0]
            st = [x for x in nodes if x["k"] == "stmt" and x["block"] == blk["id"]]
            last = st[-1]
            # an explicit `drop(<guard>);` statement in the guard's own block ends the critical section
            # there: ghost_unlock(w) after it, before the early exits between the `let` and it, and
            # nothing at the end of the block
            gm = re.match(r"let\s+(?:mut\s+)?(\w+)\s*(?::[^=]+)?=", src.text(*n["span"]))
            drops = [x for x in st if gm and x["span"][0] > n["span"][1]
                     and re.fullmatch(r"(?:std::mem::|mem::)?drop\(\s*%s\s*\)\s*;" % re.escape(gm.group(1)), src.text(*x["span"]).strip())]
            if len(drops) == 1:
                d = drops[0]
                for x in nodes:
                    if x["k"] in ("continue", "break", "return") and n["span"][1] <= x["span"][0] and x["span"][1] <= d["span"][0]:
                        for y in nodes:
                            if y["k"] == "await" and x["span"][0] <= y["span"][0] < x["span"][1]:
                                raise Undecided(f"E7: guard of {key} is alive across an await in an exit expression")
                        eds.append((x["span"][0], x["span"][0], "{ proof { ghost_unlock(w); } } ", None))
                eds.append((d["span"][1], d["span"][1], " proof { ghost_unlock(w); } ", None))
                self._log("E7", src, n["span"][0], "", "ghost_unlock(w) after the explicit drop of the guard and before early exits in front of it")
                continue
            if len(drops) > 1 or (gm and re.search(r"\bdrop\(\s*%s\s*\)" % re.escape(gm.group(1)), src.text(n["span"][1], blk["close"]))):
                raise Undecided(f"E7: guard of {key} is dropped explicitly in a nested block or in several places")
            # the guard is dropped at the end of its block and at every early exit from it
            for x in nodes:
                if x["k"] in ("continue", "break", "return") and n["span"][1] <= x["span"][0] and x["span"][1] <= blk["close"]:
                    for y in nodes:
                        if y["k"] == "await" and x["span"][0] <= y["span"][0] < x["span"][1]:
                            raise Undecided(f"E7: guard of {key} is alive across an await in an exit expression")
                    eds.append((x["span"][0], x["span"][0], "{ proof { ghost_unlock(w); } } ", None))
            unit_tail = last["kind"] == "expr" and (
                re.match(r"(while|for)\b", src.text(*last["span"]))
                or any(l["k"] == "loop" and l.get("body_close") == blk["close"] for l in nodes)
                or any(l["k"] == "if" and not l.get("has_else") and l["span"][0] == last["span"][0] and l["span"][1] == last["span"][1] for l in nodes))
            if unit_tail:
                # the tail is a unit-valued expression (a while/for loop, or the last expression of a
                # loop body): the guard is dropped right after it; what happens inside with the guard
                # alive is decided by the contracts of the calls made there
                eds.append((last["span"][1], last["span"][1], "; proof { ghost_unlock(w); } ", None))
            elif last["kind"] == "expr":
                # tail expression evaluated with the guard alive: it must not contain an await
                is_exit = any(x["k"] in ("continue", "break", "return") and x["span"][0] == last["span"][0] for x in nodes)
                has_await = any(x["k"] == "await" and last["span"][0] <= x["span"][0] < last["span"][1] for x in nodes)
                if has_await and is_exit:
                    raise Undecided(f"E7: guard of {key} is alive across an await in a tail expression")
                if has_await:
                    # the tail is evaluated (and awaited) with the guard alive and the guard is dropped
                    # after it: `TAIL` -> `let __e7_tail = TAIL; ghost_unlock(w); __e7_tail`; what may happen
                    # while the guard is alive is decided by the contracts of the calls made in TAIL
                    eds.append((last["span"][0], last["span"][0], "let __e7_tail = ", None))
                    eds.append((last["span"][1], last["span"][1], "; proof { ghost_unlock(w); } __e7_tail", None))
                elif not is_exit:
                    eds.append((last["span"][0], last["span"][0], " proof { ghost_unlock(w); } ", None))
            elif any(x["k"] in ("continue", "break", "return") and x["span"][0] == last["span"][0] for x in nodes):
                pass      # the block ends in `return;` / `break;` / `continue;`: nothing is reachable after it
            else:
                pos = blk["close"] - 1
                eds.append((pos, pos, " proof { ghost_unlock(w); } ", None))
            self._log("E7", src, n["span"][0], "", "ghost_unlock(w) at the end of the guard's block and before early exits")
        if getattr(self, "e7_temps", False):
            # a guard that is a temporary (`x.lock().await.send(v).await;`) lives to the end of its statement
            rx = re.compile(r"\.lock\(\)")
            for n in nodes:
                if n["k"] != "stmt":
                    continue
                txt = src.text(*n["span"])
                if not rx.search(txt) or (n["kind"] == "let" and self.LOCK_RX.search(txt)):
                    continue
                inner = [x for x in nodes if x["k"] == "stmt" and x is not n and n["span"][0] <= x["span"][0] and x["span"][1] <= n["span"][1] and rx.search(src.text(*x["span"]))]
                if inner:
                    continue      # the lock is taken in a nested statement: handled there
                if not txt.rstrip().endswith(";"):
                    raise Undecided(f"E7: temporary guard of {key} in a tail expression")
                eds.append((n["span"][1], n["span"][1], " proof { ghost_unlock(w); } ", None))
                self._log("E7", src, n["span"][0], "", "ghost_unlock(w) after the statement whose temporary guard it ends")
        return eds

    PANIC_MCALLS = {"unwrap", "expect"}
    PANIC_MACROS = {"todo", "unimplemented", "panic", "unreachable", "assert", "assert_eq"}

    def _implicit(self, src, it, key, spec):
        """Register the implicit (safety) obligations Verus generates for this body."""
        if not it["body"]:
            return
        cnt = {}
        sites = self.sites.setdefault(key, [])
        self.implicit_tags[key] = spec.implicit

        def reg(kind, what, n):
            k = (kind, what)
            cnt[k] = cnt.get(k, 0) + 1
            self._register(f"{self.name}::{key}@{what}#{cnt[k]-1}::{kind}", kind, spec.implicit, key,
                           f"src/{src.rel}:{src.line_of(n['span'][0])}")
            cls = "op" if kind in ("overflow", "index") else "call"
            sites.append((n["span"][0], n["span"][1], cls, f"{what}#{cnt[k]-1}"))

        ex = {}
        for n in it["nodes"]:
            if n["k"] in ("try", "return"):
                ex[n["k"]] = ex.get(n["k"], 0) + 1
                sites.append((n["span"][0], n["span"][1], "exit", f"{n['k']}#{ex[n['k']]-1}"))

        for n in it["nodes"]:
            if n["k"] == "arith":
                reg("overflow", n["op"], n)
            elif n["k"] == "index":
                reg("index", "[]", n)
            elif n["k"] == "mcall":
                if n["name"] in self.PANIC_MCALLS:
                    reg("panic-reachable", n["name"], n)
                else:
                    reg("callee-precondition", n["name"], n)
            elif n["k"] == "call":
                reg("callee-precondition", n["path"], n)
            elif n["k"] == "macro" and n["path"].split("::")[-1] in self.PANIC_MACROS:
                reg("panic-reachable", n["path"].split("::")[-1] + "!", n)
            elif n["k"] == "macro" and n["path"] == "vec" and b";" in src.data[n["open"]:n["close"]]:
                # vec![elem; n]: capacity-overflow panic (env/prelude.rs shadows the macro)
                reg("panic-reachable", "vec!", n)

    def _find_helper(self, src, name):
        # `name` is `fn` or `Type::fn`
        hits = [f for f in src._walk(src.index["items"]) if f["kind"] == "fn" and f.get("body")
                and (f["name"] == name or f.get("qual", "") == name or f.get("qual", "").endswith("::" + name))
                and not f.get("qual", "").startswith("tests::")]
        if len(hits) != 1:
            raise Undecided(f"E12: helper `{name}` in {src.rel} resolves to {len(hits)} functions")
        return hits[0]

    def _guard_returns(self, src, h, hname):
        """E12 (guards): a helper may contain `return` only in the form of guard statements
        `if c { ...; return e; }` (no else) that are statements of the helper's outermost block.
        Each is rewritten to `if c { ...; e } else { <rest of the body> }`, which has the same value
        and the same effects; any other `return` leaves the helper outside E12."""
        hn = h["nodes"]
        rets = [x for x in hn if x["k"] == "return"]
        if not rets:
            return []
        hb0, hb1 = h["body"]
        blocks = [x for x in hn if x["k"] == "block"]
        top = [b for b in blocks if b["span"][0] == hb0]
        if not top:
            raise Undecided(f"E12: helper {hname}: body block not indexed")
        top = top[0]
        stmts = [x for x in hn if x["k"] == "stmt"]
        eds = []
        for r in rets:
            sr = [x for x in stmts if x["span"][0] == r["span"][0]]
            if not sr:
                raise Undecided(f"E12: helper {hname}: `return` is not a statement of its own: not inlined")
            sr = sr[0]
            blk = [b for b in blocks if b["id"] == sr["block"]][0]
            same = [x for x in stmts if x["block"] == blk["id"]]
            if max(x["idx"] for x in same) != sr["idx"]:
                raise Undecided(f"E12: helper {hname}: `return` is not the last statement of its block")
            ifs = [x for x in hn if x["k"] == "if" and x["then"] == blk["span"] and not x["has_else"]]
            if not ifs:
                raise Undecided(f"E12: helper {hname}: `return` outside an else-less `if` guard: not inlined")
            i_ = ifs[0]
            tops = [x for x in stmts if x["block"] == top["id"] and x["span"][0] == i_["span"][0] and x["span"][1] == i_["span"][1]]
            if not tops or tops[0]["kind"] != "expr":
                raise Undecided(f"E12: helper {hname}: guard `if` with `return` is not a plain statement of the outermost block")
            if r.get("expr"):
                eds.append((r["span"][0], r["expr"][0], "", None))
            else:
                eds.append((r["span"][0], r["span"][1], "()", None))
            if sr["span"][1] > r["span"][1]:
                eds.append((r["span"][1], sr["span"][1], "", None))     # the `;`
            eds.append((i_["span"][1], i_["span"][1], " else {", None))
            eds.append((hb1 - 1, hb1 - 1, "}", None))
        return eds

    def _inline_edits(self, src, it, key, depth):
        """E12: a call `self.h(args)[.await]` / `h(args)` / `T::h(args)` to a helper of the same file
        that has no contract is replaced by the helper's body in a block
        `{ let (p1, ..): (T1, ..) = (a1, ..); <body> }`.  Meaning preserving under the conditions
        checked here: no `return` in the helper; if the helper body uses `?`, the call itself is
        immediately followed by `?` and both functions return the same `Result<_>` alias (so the
        error takes the same conversions); parameters are plain identifiers; no generics; depth <= 2."""
        names = INLINE.get((self.name, src.rel), set())
        if not names:
            return []
        eds = []
        for n in it["nodes"]:
            hname = None
            if n["k"] == "mcall":
                recv = src.text(*n["recv"]).strip()
                cands = [x for x in names if x.split("::")[-1] == n["name"]]
                if recv == "self" and cands:
                    hname = cands[0]
            elif n["k"] == "call":
                segs = n["path"].split("::")
                cands = [x for x in names if x == n["path"] or x == "::".join(segs[-2:]) or (len(segs) == 1 and x == segs[0])]
                if cands:
                    hname = cands[0]
            if hname is None:
                continue
            h = self._find_helper(src, hname)
            if depth >= 2:
                raise Undecided(f"E12: helper nesting deeper than 2 at {hname}")
            hn = h["nodes"]
            ret_edits = self._guard_returns(src, h, hname)
            if h["sig"]["generics"]:
                # a generic helper is inlined only when each of its type parameters has the name of a
                # type parameter of the caller (the usual shape of a helper split off a generic fn);
                # if the call instantiates them differently the inlined text does not type-check
                hg = set(re.findall(r"\b([A-Z]\w*)\b\s*(?:[:,>])", src.text(*h["sig"]["generics"])))
                cg_src = src.text(*it["sig"]["generics"]) if it.get("sig") and it["sig"].get("generics") else ""
                encl = [x for x in src._walk(src.index["items"]) if x["kind"] == "impl" and x["span"][0] <= it.get("start", it.get("span", [0])[0]) <= x["span"][1]] if it.get("sig") else []
                for x in encl:
                    cg_src += " " + src.text(x["start"], x.get("open", x["span"][1]))
                cg = set(re.findall(r"\b([A-Z]\w*)\b", cg_src))
                if not hg or not hg <= cg:
                    raise Undecided(f"E12: helper {hname} is generic over {sorted(hg)} which are not all type parameters of the caller: not inlined")
            params = [p_ for p_ in h["sig"]["inputs"] if not p_.get("self")]
            if len(params) != len(n["args"]):
                raise Undecided(f"E12: arity mismatch at call of {hname}")
            for p_ in params:
                if not re.match(r"^(mut\s+)?[A-Za-z_][A-Za-z0-9_]*$", src.text(*p_["pat"]).strip()):
                    raise Undecided(f"E12: helper {hname} has a pattern parameter")
            end = n["span"][1]
            aw = [x for x in it["nodes"] if x["k"] == "await" and x["base_end"] == n["span"][1]]
            if aw:
                end = aw[0]["span"][1]
            uses_try = any(x["k"] == "try" for x in hn)
            if uses_try:
                after = src.text(end, min(end + 8, len(src.data))).lstrip()
                ho = src.text(*h["sig"]["output"]).strip() if h["sig"]["output"] else ""
                fo = src.text(*it["sig"]["output"]).strip() if it.get("sig") and it["sig"]["output"] else ""
                # the call may also be the tail expression of the caller when both return the same type:
                # the helper's error then IS the caller's result
                b0 = [x for x in it["nodes"] if x["k"] == "block"]
                tail_ok = False
                if b0 and not it.get("is_slice") and b0[0]["span"] == it.get("body"):
                    st_ = [x for x in it["nodes"] if x["k"] == "stmt" and x["block"] == b0[0]["id"]]
                    tail_ok = bool(st_) and st_[-1]["kind"] == "expr" and st_[-1]["span"][0] == n["span"][0] and st_[-1]["span"][1] == end and ho == fo
                same_alias = re.match(r"^Result<[^,]*>$", ho) and re.match(r"^Result<[^,]*>$", fo)
                if not ((after.startswith("?") and same_alias) or tail_ok):
                    raise Undecided(f"E12: helper {hname} uses `?` but its call is neither `{hname}(..)?` between two `Result<_>` functions nor the caller's tail expression of the same type")
            lhs = ", ".join(src.text(*p_["pat"]).strip() for p_ in params)
            tys = ", ".join(src.text(*p_["ty"]).strip() for p_ in params)
            hb0, hb1 = h["body"]

            def emit(inner_caller, h=h, hname=hname, lhs=lhs, tys=tys, argspans=list(n["args"]), hb0=hb0, hb1=hb1, ret_edits=ret_edits):
                ret = src.text(*h["sig"]["output"]).strip() if h["sig"]["output"] else "()"
                if "::" in h.get("qual", ""):
                    ret = re.sub(r"\bSelf\b", h["qual"].split("::")[-2], ret)
                    tys = re.sub(r"\bSelf\b", h["qual"].split("::")[-2], tys)
                self.raw("{ /* E12: body of helper " + hname + " inlined */ ")
                if argspans:
                    # all arguments are evaluated before any parameter is bound (tuple binding)
                    self.raw(f"let ({lhs},): ({tys},) = (")
                    for (a0, a1) in argspans:
                        self._apply(src, a0, a1, [e_ for e_ in inner_caller if a0 <= e_[0] and e_[1] <= a1])
                        self.raw(", ")
                    self.raw("); ")
                self.raw("let __inl: " + ret + " = {")
                inner = list(ret_edits)
                # the helper body gets the same catalogued edits as any extracted text
                if self.drop_async:
                    for x in h["nodes"]:
                        if x["k"] == "await":
                            inner.append((x["base_end"], x["span"][1], "", None))
                for x in h["nodes"]:
                    cname = None
                    if x["k"] == "mcall" and ("m:" + x["name"]) in self.ghost_callees:
                        cname = "m:" + x["name"]
                    elif x["k"] == "call" and ("c:" + x["path"]) in self.ghost_callees:
                        cname = "c:" + x["path"]
                    if cname is not None and isinstance(self.ghost_callees[cname], tuple):
                        g_, rx = self.ghost_callees[cname]
                        if not re.search(rx, src.text(*x["recv"])):
                            cname = None
                    if cname is not None:
                        g_ = self.ghost_callees[cname]
                        g_ = g_[0] if isinstance(g_, tuple) else g_
                        sep = "" if (x["nargs"] == 0 or x["trailing"]) else ", "
                        inner.append((x["close"], x["close"], sep + g_, None))
                    if x["k"] == "macro" and x["path"].split("::")[-1] in ("select", "join"):
                        raise Undecided(f"E12: helper {hname} contains select!/join!")
                    if x["k"] == "loop":
                        raise Undecided(f"E12: helper {hname} contains a loop (no contract for it)")
                inner += self._inline_edits(src, h, key, depth + 1)
                # `Self` in the helper names the helper's impl type, not the caller's
                hq = h.get("qual", "")
                if "::" in hq:
                    for (a0, a1) in _code_ranges(src.data, hb0 + 1, hb1 - 1):
                        for m_ in re.finditer(rb"\bSelf\b", src.data[a0:a1]):
                            inner.append((a0 + m_.start(), a0 + m_.end(), hq.split("::")[-2], None))
                self._apply(src, hb0 + 1, hb1 - 1, inner)
                self.raw(" }; __inl }")

            eds.append((n["span"][0], end, emit, None))
            self._log("E12", src, n["span"][0], src.text(n["span"][0], end)[:60], f"body of helper {hname} inlined")
            self.auto_included.append(f"src/{src.rel}: fn {hname} inlined at its call site in {key} (E12)")
        return eds

    def _join_edits(self, src, it, n, key):
        """E3 (join): `join!(f1, f2)` where f1, f2 are locals bound by `let fi = <call>;` (futures
        that were created but not awaited).  The binding statements are removed and the join is
        replaced by a demonic choice between the two orders in which the node may serve the two
        calls; the call texts are copied verbatim (ghost argument appended as for E4)."""
        if "args" not in n or len(n["args"]) != 2:
            raise Undecided(f"join! in {key}: only the two-future form is catalogued")
        names = [src.text(*a).strip() for a in n["args"]]
        eds, exprs = [], []
        for nm in names:
            hits = [st for st in it["nodes"] if st["k"] == "stmt" and st["kind"] == "let"
                    and re.match(r"let\s+" + re.escape(nm) + r"\s*=", src.text(*st["span"]))]
            if len(hits) != 1:
                raise Undecided(f"join! in {key}: `{nm}` is not bound by exactly one let statement")
            txt = src.text(*hits[0]["span"])
            m = re.match(r"let\s+\w+\s*=\s*(.*);\s*$", txt, re.S)
            ex = m.group(1).strip()
            mm = re.search(r"\.(\w+)\s*\([^()]*\)\s*$", ex, re.S)
            if mm and ("m:" + mm.group(1)) in self.ghost_callees and ex.endswith(")"):
                g = self.ghost_callees["m:" + mm.group(1)]
                g = g[0] if isinstance(g, tuple) else g
                ex = ex[:-1] + ", " + g + ")"
            exprs.append(ex)
            eds.append((hits[0]["span"][0], hits[0]["span"][1], "", None))
        a, b = exprs
        rep = (f"if nondet() {{ let __j0 = {a}; let __j1 = {b}; (__j0, __j1) }} "
               f"else {{ let __j1 = {b}; let __j0 = {a}; (__j0, __j1) }}")
        eds.append((n["span"][0], n["span"][1], rep, None))
        self._log("E3", src, n["span"][0], "join!(f1, f2)", "demonic choice between both orders of the two calls")
        return eds

    CANCEL_SAFE = {"recv", "sleep", "next", "changed", "notified", "tick", "accept"}

    def _select_edits(self, src, n, nodes=None):
        """E3: tokio::select! { p = fut => body, ... }  ==>
        if nondet() { let p = fut; body } else if nondet() {...} else {...}
        E3c (only if an arm's future is an `async {}` block, see _async_arm): that arm becomes one
        branch for "the block runs to completion" plus one branch per proper statement prefix
        "the future is dropped after these statements because another arm completed first"."""
        eds = []
        arms = n["arms"]
        s0 = n["span"][0]
        cur = s0
        # E3 models every branch future as ONE atomic step that either completes or has no effect.
        # That is only sound for cancellation-safe futures, so each future must be a single call of
        # a function from this list (tokio documents them as cancel safe); an `async {}` block is
        # expanded into its cancellation points (E3c); anything else is undecided.
        async_arms = {}
        dropped = {}
        for i, a in enumerate(arms):
            ft = src.text(*a["fut"]).strip()
            if re.match(r"^async\b", ft):
                async_arms[i] = self._async_arm(src, n, a, nodes)
                continue
            m_ = re.match(r"^(?:[\w:]+::)?(\w+)\s*\(.*\)$", ft, re.S) or re.match(r"^[\w\.\s]+\.(\w+)\s*\(.*\)$", ft, re.S)
            # E3d: a branch future that is ONE method call of a function the unit lists as NOT cancellation
            # safe together with an env "drop model" (what may have happened when the future was polled and
            # then dropped because another arm completed first)
            md = re.match(r"^([\w\.\s]+)\.(\w+)\s*\((.*)\)$", ft, re.S)
            if md and md.group(2) in getattr(self, "cancel_unsafe", {}) and ".await" not in ft:
                dropped[i] = f"if nondet() {{ {self.cancel_unsafe[md.group(2)]}(&{md.group(1).strip()}, {md.group(3).strip().rstrip(',')}, Tracked(w)); }} "
                continue
            if not m_ or m_.group(1) not in (self.CANCEL_SAFE | getattr(self, "cancel_safe_extra", set())) or ".await" in ft:
                raise Undecided(f"E3: select! branch future `{ft[:60]}` is not a single call of a cancellation-safe function ({', '.join(sorted(self.CANCEL_SAFE))}): dropping it part-way is not modelled")
        REFUT = re.compile(r"^(Some|Ok|Err)\s*\(")
        refut = {i for i, a in enumerate(arms) if REFUT.match(src.text(*a["pat"]).strip())}
        if refut:
            # E3r: tokio's rule for a refutable pattern `PAT = fut`: when fut completes with a value that
            # does not match, the branch is DISABLED and select! goes on with the remaining ones (all
            # disabled and no `else`: it panics).  `{ let __sel = fut; if let PAT = __sel { body } else
            # { <demonic choice over the remaining arms> } }`, written by an emitter that copies the
            # arms' pattern / future / body texts with the edits that fall inside them.
            if async_arms or any(a.get("guard") for a in arms):
                raise Undecided("E3r: select! with a refutable pattern together with an async-block future or a branch guard")
            whole = (n["span"][0], n["close"] + 1)

            def emit(inner, arms=arms, dropped=dropped, refut=refut):
                def rng(s_, e_):
                    self._apply(src, s_, e_, [e for e in inner if s_ <= e[0] and e[1] <= e_])
                def body(a):
                    if a["body_is_block"]:
                        rng(*a["body"])
                    else:
                        self.raw("{ "); rng(*a["body"]); self.raw(" }")
                def gen(idx):
                    if not idx:
                        self.raw("{ crate::select_all_branches_disabled() }")
                        return
                    for k, i in enumerate(idx):
                        a = arms[i]
                        self.raw(("" if k == 0 else " else ") + ("if nondet() " if k < len(idx) - 1 else "") + "{ ")
                        self.raw("".join(t for j, t in sorted(dropped.items()) if j != i and j in idx))
                        if i in refut:
                            self.raw(f"let __sel{i} = "); rng(*a["fut"]); self.raw("; if let "); rng(*a["pat"])
                            self.raw(f" = __sel{i} "); body(a) if a["body_is_block"] else (self.raw("{ "), rng(*a["body"]), self.raw(" }"))
                            self.raw(" else { "); gen([j for j in idx if j != i]); self.raw(" }")
                        else:
                            self.raw("let "); rng(*a["pat"]); self.raw(" = "); rng(*a["fut"]); self.raw("; "); body(a)
                        self.raw(" }")
                gen(list(range(len(arms))))
            self._log("E3r", src, s0, "tokio::select!{…}", "refutable branch pattern: a completed branch whose value does not match is disabled and the remaining arms go on")
            if dropped:
                self._log("E3d", src, s0, "tokio::select!{…}", "a not-cancellation-safe branch future: the arms that win over it first run its env drop model (started, then dropped)")
            return [(whole[0], whole[1], emit, None)]
        for i, a in enumerate(arms):
            last = i == len(arms) - 1 and not async_arms
            if i in async_arms:
                head = ("" if i == 0 else " else ") + "if nondet() { "
                eds.append((cur, a["pat"][0], head, None))
                eds.append((a["pat"][0], a["body"][1], async_arms[i], None))
                cur = a["body"][1]
                eds.append((cur, cur, " }", None))
                continue
            # E3d: when THIS arm wins, every not-cancellation-safe future of another arm was dropped
            pre = "".join(t for k, t in sorted(dropped.items()) if k != i)
            head = ("" if i == 0 else " else ") + ("" if last else "if nondet() ") + "{ " + pre + "let "
            if last and i == 0:
                head = "{ let "
            eds.append((cur, a["pat"][0], head, None))
            eds.append((a["pat"][1], a["fut"][0], " = ", None))
            if a["body_is_block"]:
                eds.append((a["fut"][1], a["body"][0], "; ", None))
            else:
                eds.append((a["fut"][1], a["body"][0], "; { ", None))
            cur = a["body"][1]
            tail = " }" if a["body_is_block"] else " } }"      # no `;`: a select! used as a value keeps the arm's value (arms of a statement-position select! are unit-typed anyway)
            eds.append((cur, cur, tail, None))
        # with cancellation branches every arm is conditional; the chain ends in a stutter step
        eds.append((cur, n["close"] + 1, " else { }" if async_arms else "", None))
        if dropped:
            self._log("E3d", src, s0, "tokio::select!{…}", "a not-cancellation-safe branch future: the arms that win over it first run its env drop model (started, then dropped)")
        self._log("E3", src, s0, "tokio::select!{…}", f"demonic if/else chain over {len(arms)} arms" + (" with cancellation points of async-block futures (E3c)" if async_arms else ""))
        return eds

    def _async_arm(self, src, n, a, nodes):
        """E3c.  Supported shape, anything else is undecided:
          * the select! is the only statement of a `loop` body (so "another arm completed" is the
            same as the next round of the loop);
          * the arm is `p = async [move] { S1; ..; Sn; TAIL } => p?` (the handler only propagates
            the block's error).
        Completion branch: S1..Sn, then TAIL with its error propagated.  Dropped branches: for
        j = 1..n the statements S1..Sj only (the future was dropped at an await of S(j+1) -- or of
        TAIL -- because the other arm completed).  `?` inside the block is written out (as E14) and
        returns from the function, which is what `p?` does with the block's error."""
        if nodes is None:
            raise Undecided("E3c: select! with an async-block future outside a whole-function extraction")
        ft = src.text(*a["fut"])
        blocks = [b for b in nodes if b["k"] == "block" and a["fut"][0] <= b["span"][0] and b["span"][1] <= a["fut"][1]]
        if not blocks:
            raise Undecided("E3c: async block of a select! arm is not indexed")
        B = min(blocks, key=lambda b: b["span"][0])
        pat = src.text(*a["pat"]).strip()
        body = src.text(*a["body"]).strip().rstrip(",").strip()
        if not re.match(r"^\{?\s*" + re.escape(pat) + r"\s*\?\s*;?\s*\}?$", body) or not re.match(r"^\w+$", pat):
            raise Undecided(f"E3c: handler of the async-block arm is not `{pat}?`")
        # the select! must be the only statement of a loop body
        encl = [st for st in nodes if st["k"] == "stmt" and st["span"][0] <= n["span"][0] and n["span"][1] <= st["span"][1] + 1]
        if not encl:
            raise Undecided("E3c: cannot place the select! in its block")
        st0 = min(encl, key=lambda st: st["span"][1] - st["span"][0])
        sibl = [st for st in nodes if st["k"] == "stmt" and st["block"] == st0["block"]]
        blk = [b for b in nodes if b["k"] == "block" and b["id"] == st0["block"]][0]
        if len(sibl) != 1 or not any(l["k"] == "loop" and l.get("body_open") == blk["open"] for l in nodes):
            raise Undecided("E3c: a select! with an async-block future must be the only statement of a loop body")
        stmts = sorted([st for st in nodes if st["k"] == "stmt" and st["block"] == B["id"]], key=lambda st: st["idx"])
        if not stmts or stmts[-1]["kind"] != "expr" or any(st["kind"] not in ("let", "expr;") for st in stmts[:-1]):
            raise Undecided("E3c: async block is not `S1; ..; Sn; TAIL`")
        tries = [x for x in nodes if x["k"] == "try" and B["span"][0] <= x["span"][0] and x["span"][1] <= B["span"][1]]

        def emit(inner, stmts=stmts, tries=tries):
            def rng(s_, e_):
                eds_ = [e for e in inner if s_ <= e[0] and e[1] <= e_]
                for x in tries:
                    if s_ <= x["span"][0] and x["span"][1] <= e_:
                        eds_.append((x["span"][0], x["span"][0], "(match ", None))
                        eds_.append((x["pos"], x["pos"] + 1, " { Ok(__v) => __v, Err(__e) => return Err(::core::convert::From::from(__e)) })", None))
                self._apply(src, s_, e_, eds_)
            self.raw("/* E3c: the async-block future runs to completion */ ")
            for st in stmts[:-1]:
                rng(*st["span"]); self.raw(" ")
            self.raw("match (")
            rng(*stmts[-1]["span"])
            self.raw(") { Ok(_) => (), Err(__e) => return Err(::core::convert::From::from(__e)) };")
            for j in range(1, len(stmts)):
                self.raw(f" }} else if nondet() {{ /* E3c: the future is dropped after its first {j} statement(s): the other arm completed first */ ")
                for st in stmts[:j]:
                    rng(*st["span"]); self.raw(" ")
        return emit

    def site_lookup(self, key, byte):
        best = {}
        for (s, e, cls, what) in self.sites.get(key, []):
            if s <= byte < e:
                if cls not in best or (e - s) < best[cls][0]:
                    best[cls] = (e - s, what)
        return {k: v[1] for k, v in best.items()}

    # ---- containers -----------------------------------------------------------
    def impl(self, src, self_ty, fns, modname, trait=None, nth=None, header=None, stubs=()):
        im = src.find(self_ty, "impl", trait=trait, nth=nth)
        # header: from impl start to `{`
        if header is None:
            hs, he = im["start"], im["open"] + 1
            self._apply(src, hs, he, [])
        else:
            self.raw(header + " {")
        self.raw("\n")
        for name in fns:
            src.find_fn_in(im, name)
        for f in im["items"]:
            if f["kind"] == "other":
                self._apply(src, f["span"][0], f["span"][1], self._strip_attrs_edits(src, *f["span"]))
                self.raw("\n")
            elif f["kind"] == "fn" and f["name"] in fns:
                self.fn(src, f, f"{modname}::{self_ty}::{f['name']}", stub=(f["name"] in stubs))
        self.raw("}\n")
        return im

    def trait(self, src, name, modname, fns=None, header=None):
        tr = src.find(name, "trait")
        s, e = tr["span"]
        if header is None:
            self._apply(src, tr["start"], tr["open"] + 1, [])
        else:
            self.raw(header + " {")
        self.raw("\n")
        for f in tr["items"]:
            if f["kind"] != "fn":
                self._apply(src, f["span"][0], f["span"][1], self._strip_attrs_edits(src, *f["span"]))
                self.raw("\n")
                continue
            if fns is not None and f["name"] not in fns:
                continue
            self.fn(src, f, f"{modname}::{name}::{f['name']}")
        self.raw("}\n")
        return tr

    def free_fn(self, src, name, modname):
        f = src.find(name, "fn")
        self.fn(src, f, f"{modname}::{name}")
        return f

    # ---- finalize ---------------------------------------------------------------
    def finalize(self):
        for k, sp_ in self.specs.items():
            if not sp_.used and k in self.strict_specs:
                raise Undecided(f"lost anchor: spec for {k} was not attached to any extracted function")
        out = []
        offs = []
        pos = 0
        if self.canary:
            decl = "".join(f"pub uninterp spec fn {c}() -> bool;\n" for c in self.canary_names)
            hit = [p for p in self.pieces if p.tag == "__canary_decls__"]
            if not hit:
                raise Undecided("unit has no canary_decls() placeholder")
            hit[0].text = decl
        for p in self.pieces:
            b = p.text.encode("utf-8")
            offs.append(pos)
            pos += len(b)
            out.append(p.text)
        self.offsets = offs
        return "".join(out)

    def locate(self, byte_off):
        i = bisect.bisect_right(self.offsets, byte_off) - 1
        p = self.pieces[i]
        d = {"fn": p.fn}
        if p.src is not None:
            o = p.start + (byte_off - self.offsets[i])
            d["file"] = f"src/{p.src.rel}"
            d["line"] = p.src.line_of(o)
            d["byte"] = o
            d["src"] = p.src
        if p.tag is not None and isinstance(p.tag, dict):
            d["tag"] = p.tag
        return d
