"""Run Verus on an assembled unit and map every diagnostic to a named obligation."""
import json, os, re, subprocess, time, importlib, sys
from . import core
from .core import Undecided, Unit, VERIF

BUILD = os.path.join(VERIF, "build")
if os.path.realpath(core.REPO) != "/repo":
    # scratch trees (self-test mutants, benign refactors) get their own directory so that
    # concurrent runs never overwrite each other's generated files
    import hashlib
    BUILD = os.path.join(BUILD, "scratch-" + hashlib.sha1(os.path.realpath(core.REPO).encode()).hexdigest()[:10])
    import atexit, shutil
    atexit.register(lambda: shutil.rmtree(BUILD, ignore_errors=True))

VERIFICATION_MSG = [
    (re.compile(r"^postcondition not satisfied"), "ensures"),
    (re.compile(r"^precondition not satisfied"), "requires"),
    (re.compile(r"^unable to prove post-condition of closure"), "ensures"),
    (re.compile(r"^Call to non-static function fails to satisfy `callee.requires\(args\)`"), "requires"),
    (re.compile(r"^possible arithmetic underflow/overflow"), "overflow"),
    (re.compile(r"^possible division by zero"), "overflow"),
    (re.compile(r"^possible bit shift underflow/overflow"), "overflow"),
    (re.compile(r"^assertion failed"), "assert"),
    (re.compile(r"^invariant not satisfied"), "invariant"),
    (re.compile(r"^loop invariant not satisfied"), "invariant"),
    (re.compile(r"^decreases not satisfied"), "decreases"),
    (re.compile(r"^could not prove termination"), "decreases"),
    (re.compile(r"^unable to prove assertion safety condition"), "assert"),
    (re.compile(r"^constructed value may fail to meet its declared type invariant"), "type-invariant"),
    (re.compile(r"^possible overflow"), "overflow"),
    (re.compile(r"^recursive call|^termination"), "decreases"),
]
IGNORE_MSG = [
    re.compile(r"^aborting due to"),
    re.compile(r"^recommendation not met"),
]
RLIMIT_MSG = re.compile(r"Resource limit|rlimit", re.I)


def load_unit_module(name):
    if os.path.join(VERIF) not in sys.path:
        sys.path.insert(0, VERIF)
    return importlib.import_module(f"units.{name}")


def assemble(name, prop, canary=False, mutate=None):
    mod = load_unit_module(name)
    u = Unit(name, prop=prop, canary=canary)
    mod.build(u)
    text = u.finalize()
    if mutate:
        text = mutate(text)
    return u, text


def _sites(u, src_item_nodes):
    pass


def classify(msg):
    for rx in IGNORE_MSG:
        if rx.search(msg):
            return "ignore"
    for rx, k in VERIFICATION_MSG:
        if rx.search(msg):
            return k
    return None


def site_of(u, loc, kinds):
    """Name the innermost syntactic site (call / op / exit) of fn that covers the
    byte offset."""
    if "src" not in loc or loc["fn"] is None:
        return None
    table = u.site_table.get(loc["fn"], [])
    best = None
    for (s, e, what, kind) in table:
        if kind in kinds and s <= loc["byte"] < e:
            if best is None or (e - s) < (best[1] - best[0]):
                best = (s, e, what, kind)
    return best


def build_site_table(u):
    """Per extracted fn: [(start,end,'<what>#<ord>',kind)] with the same ordinals
    as Unit._implicit."""
    u.site_table = {}


def run_verus(path, rlimit=30, threads=4, extra=None, multiple_errors=30):
    cmd = ["verus", path, "--output-json", "--time", "--multiple-errors", str(multiple_errors),
           "--rlimit", str(rlimit), "--num-threads", str(threads), "--error-format=json",
           "--no-report-long-running"]
    if extra:
        cmd += extra
    t0 = time.time()
    # wall-clock guard: a query that runs away is undecided, never an alarm
    p = subprocess.run(["timeout", "-k", "5", "240"] + cmd, capture_output=True, text=True, cwd=os.path.dirname(path))
    wall = time.time() - t0
    if p.returncode in (124, 137):
        return {"cmd": " ".join(cmd), "rc": p.returncode, "json": None, "diags": [], "stderr": "verus did not finish within 240 s (killed)", "wall": wall}
    try:
        res = json.loads(p.stdout)
    except Exception:
        res = None
    diags = []
    for line in p.stderr.split("\n"):
        line = line.strip()
        if line.startswith("{"):
            try:
                diags.append(json.loads(line))
            except Exception:
                pass
    return {"cmd": " ".join(cmd), "rc": p.returncode, "json": res, "diags": diags, "stderr": p.stderr, "wall": wall}


INLINE_RX = re.compile(r"(?:no method named `(?P<m>\w+)` found for (?:reference|struct|mutable reference) `&?(?:mut )?(?P<mp1>[\w:]*::)?(?P<t1>\w+)[^`]*`|no (?:variant, |function or )?associated (?:function|item)(?:,? or constant)? named `(?P<f>\w+)` found for (?:struct|enum) `(?P<mp2>[\w:]*::)?(?P<t2>\w+)[^`]*`) in the current scope at (?:src/(?P<rel>[\w/\.]+)|<generated>):")


def _rel_of_module(mp):
    """`a::b::` -> the source file of that module under REPO/src (used when the diagnostic lies in
    generated text, e.g. an argument copied into an E12 parameter binding)."""
    segs = [x for x in (mp or "").split("::") if x and x != "crate"]
    if not segs:
        return None
    for cand in ("/".join(segs) + ".rs", "/".join(segs) + "/mod.rs"):
        if os.path.exists(os.path.join(core.REPO, "src", cand)):
            return cand
    return None
REFLECT_FAIL_RX = re.compile(r"(with mode exec|not allowed in pure context|in spec/proof|cannot call function .* with mode exec|in spec-mode|spec mode).*at <generated>|cannot call function .* with mode exec")
AUTO_RX = re.compile(r"(?:cannot find (?:function|value|type|struct, variant or union type) `(\w+)` in this scope|variable `([A-Z][A-Z0-9_]+)` is not bound in all patterns) at src/([\w/\.]+):")


NOT_PURE_RX = re.compile(r"auto-include: helper (\w+) in ([\w/\.]+) is not a pure free fn")


def run_unit(name, prop, canary=False, mutate=None, suffix=""):
    """Assemble + verify; helpers the extracted text references but the unit does not list are
    pulled in automatically.  AUTO / INLINE are kept per unit (the real run and the canary run of a
    unit share them and may run in parallel): a round is repeated whenever the sets changed --
    by this run or by the other one -- after this round's text had been assembled."""
    A = lambda rel: core.AUTO.setdefault((name, rel), set())
    I = lambda rel: core.INLINE.setdefault((name, rel), set())
    def state():
        return (frozenset((k, frozenset(v)) for k, v in core.AUTO.items() if k[0] == name),
                frozenset((k, frozenset(v)) for k, v in core.INLINE.items() if k[0] == name))
    out = None
    for _ in range(7):
        snap = state()
        try:
            out = _run_unit(name, prop, canary, mutate, suffix)
        except Undecided as e:
            mp = NOT_PURE_RX.search(str(e))
            if mp:
                # an effectful free helper: inline it at its call sites (E12) instead
                I(mp.group(2)).add(mp.group(1))
                A(mp.group(2)).discard(mp.group(1))
                if state() != snap:
                    continue
            raise
        for msg in out["undecided"]:
            mi = INLINE_RX.search(msg)
            if mi:
                nm = (mi.group("t1") + "::" + mi.group("m")) if mi.group("m") else (mi.group("t2") + "::" + mi.group("f"))
                rel = mi.group("rel") or _rel_of_module(mi.group("mp1") or mi.group("mp2"))
                if rel is not None:
                    I(rel).add(nm)
                continue
            m = AUTO_RX.search(msg)
            if m:
                nm = m.group(1) or m.group(2)
                if nm not in I(m.group(3)):
                    A(m.group(3)).add(nm)
        if any(REFLECT_FAIL_RX.search(msg) for msg in out["undecided"]):
            # a pure-looking free helper whose body cannot be a spec function (it calls std functions
            # without a spec-mode counterpart, uses `return` / let-else): inline it instead (E12)
            for (un, rel), names in list(core.AUTO.items()):
                if un != name:
                    continue
                src = core.Src.get(rel)
                fns = {nm for nm in names if any(it.get("name") == nm and it["kind"] == "fn" for it in src._walk(src.index["items"]))}
                I(rel).update(fns)
                core.AUTO[(un, rel)] = set(names) - fns
        if not out["undecided"] or state() == snap:
            return out
    return out


def _canary_complete(out):
    u = out["u"]
    failed = {f["fn"] for f in out["failures"] if f.get("clause") == "__canary"}
    return all((not fn["has_body"]) or fn["fn"] in getattr(u, "no_canary", set()) or fn["fn"] in failed
               for fn in u.functions)


def _run_unit(name, prop, canary=False, mutate=None, suffix=""):
    """Canary runs need ONE canary failure per function.  Asking Verus for many errors per function
    makes it re-query the solver once per further error, which on large bodies is slow and
    unstable (same text: 12 s or > 240 s depending on the crate name); so the canary run asks for
    2 errors per function and escalates (6, 30) only while some function shows other failures
    but not yet its canary."""
    if not canary:
        return _run_unit1(name, prop, canary, mutate, suffix, 30)
    out = None
    for me in (2, 6, 30):
        out = _run_unit1(name, prop, canary, mutate, suffix, me)
        if out["undecided"] or _canary_complete(out):
            break
    return out


def _run_unit1(name, prop, canary, mutate, suffix, multiple_errors):
    """Assemble + verify.  Returns dict(unit, failures, undecided, verified, ...)."""
    os.makedirs(BUILD, exist_ok=True)
    u, text = assemble(name, prop, canary, mutate)
    tagp = prop or "all"
    fname = f"{name}__{tagp}{'__canary' if canary else ''}{suffix}.rs"
    path = os.path.join(BUILD, fname)
    open(path, "w").write(text)
    r = run_verus(path, multiple_errors=multiple_errors)
    out = {"unit": name, "prop": prop, "canary": canary, "file": path, "cmd": r["cmd"],
           "wall_s": round(r["wall"], 2), "failures": [], "undecided": [], "verified": 0, "errors": 0,
           "smt_ms": None, "u": u}
    j = r["json"]
    if j is None:
        out["undecided"].append("verus produced no JSON: " + r["stderr"][-2000:])
        return out
    vr = j.get("verification-results", {})
    out["verified"] = vr.get("verified", 0)
    out["errors"] = vr.get("errors", 0)
    tm = j.get("times-ms", {})
    out["smt_ms"] = (tm.get("smt") or {}).get("total")
    out["verus_total_ms"] = tm.get("total")
    out["verus_version"] = (tm.get("verus-build") or {}).get("version")
    for d in r["diags"]:
        if d.get("level") not in ("error",):
            continue
        msg = d.get("message", "")
        k = classify(msg)
        if k == "ignore":
            continue
        spans = [_resolve_span(sp_, path) for sp_ in d.get("spans", [])]
        spans = [sp_ for sp_ in spans if sp_ is not None]
        prim = [s for s in spans if s.get("is_primary")]
        if k is None or RLIMIT_MSG.search(msg):
            where = ""
            if prim:
                loc = u.locate(prim[0]["byte_start"])
                where = f" at {loc.get('file','<generated>')}:{loc.get('line','?')}" + (f" [{loc['tag'].get('env') or loc['tag'].get('where')}]" if 'tag' in loc else "")
            out["undecided"].append(f"{msg}{where}")
            continue
        f = {"kind": k, "message": msg, "rendered": d.get("rendered", ""), "fn": None, "clause": None,
             "tags": None, "site": None, "loc": None, "clause_where": None}
        ploc = u.locate(prim[0]["byte_start"]) if prim else {}
        f["fn"] = ploc.get("fn")
        if "file" in ploc:
            f["loc"] = f"{ploc['file']}:{ploc['line']}"
        elif "tag" in ploc:
            f["loc"] = ploc["tag"].get("env") or ploc["tag"].get("where")
        # the clause: the span labelled "failed ..." if there is one, else the primary span when
        # it lies in spliced/env text (invariants, assertions)
        ctag = None
        cands = [s for s in spans if (s.get("label") or "").startswith("failed")]
        if not cands and (k in ("invariant", "assert", "decreases") or msg.startswith("unable to prove post-condition of closure")):
            cands = prim
        for s in cands:
            l = u.locate(s["byte_start"])
            if "tag" in l and not (l["tag"].get("label") or l["tag"].get("clause")) and s.get("byte_end"):
                # an env clause written over several lines carries its `// #label [tags]` comment
                # on its last line
                l2 = u.locate(s["byte_end"] - 1)
                if "tag" in l2 and (l2["tag"].get("label") or l2["tag"].get("clause")):
                    l = l2
            if "tag" in l:
                ctag = l["tag"]
                if f["fn"] is None:
                    f["fn"] = l.get("fn")
                break
        # exit site of a failed postcondition ("at this exit" / "at the end of the function body")
        for s in spans:
            if (s.get("label") or "").startswith("at this exit"):
                l = u.locate(s["byte_start"])
                if "src" in l and l.get("fn"):
                    f["exit_loc"] = f"{l['file']}:{l['line']}"
                    f["site"] = u.site_lookup(l["fn"], l["byte"]) or {"exit": f"line-in-fn"}
                    if f["fn"] is None:
                        f["fn"] = l["fn"]
            elif (s.get("label") or "").startswith("at the end of the function body"):
                f["site"] = {"exit": "end"}
                if f["fn"] is None:
                    l = u.locate(s["byte_start"])
                    f["fn"] = l.get("fn")
                    if "file" in l and f["loc"] is None:
                        f["loc"] = f"{l['file']}:{l['line']}"
        if not ctag and not prim:
            # the failed clause is not in the generated file: a contract vstd attaches to a std trait
            # method the real code implements (e.g. PartialEq::eq of std_specs/cmp.rs)
            ext = [x for x in d.get("spans", []) if x.get("is_primary")]
            if ext:
                f["clause"] = "vstd:" + os.path.basename(ext[0].get("file_name", "?")) + ":" + str(ext[0].get("line_start", "?"))
                f["clause_where"] = "vstd " + ext[0].get("file_name", "?")
        if ctag:
            f["clause"] = ctag.get("clause") or ctag.get("label")
            f["tags"] = ctag.get("tags")
            f["clause_where"] = ctag.get("where") or ctag.get("env")
            if ctag.get("sub"):
                f["sub"] = ctag["sub"]
            if f["fn"] is None and ctag.get("fn"):
                f["fn"] = ctag["fn"]
        # site
        if "src" in ploc and ploc.get("fn") and f["site"] is None:
            st = u.site_lookup(ploc["fn"], ploc["byte"])
            f["site"] = st
        f["name"] = obligation_name(u, f)
        out["failures"].append(f)
    if out["errors"] and not out["failures"] and not out["undecided"]:
        out["undecided"].append("verus reported errors that could not be parsed: " + r["stderr"][-1500:])
    if r["rc"] != 0 and not out["failures"] and not out["undecided"]:
        out["undecided"].append("verus exit %d: %s" % (r["rc"], r["stderr"][-1500:]))
    if vr.get("encountered-vir-error"):
        out["undecided"].append("verus VIR error: " + r["stderr"][-1500:])
    return out


def _resolve_span(sp_, path):
    """Follow macro expansions back to the outermost call site in the assembled file (a span
    inside the body of a macro that is itself defined in the assembled file -- the env's log
    macros, anyhow!, vec! -- is reported at the place the real code invokes the macro)."""
    cur = sp_
    base = os.path.basename(path)
    best = None
    for _ in range(8):
        if cur is None:
            break
        if os.path.basename(cur.get("file_name", "")) == base:
            best = cur
        ex = cur.get("expansion")
        cur = ex.get("span") if ex else None
    if best is None:
        return None
    out = dict(best)
    out["is_primary"] = sp_.get("is_primary")
    out["label"] = sp_.get("label")
    return out


def obligation_name(u, f):
    fn = f["fn"] or "<spec>"
    k = f["kind"]
    if k == "ensures":
        sub = f.get("sub")
        base = f"{u.name}::{fn}::" + (f"{sub}::" if sub and sub.startswith("closure") else "") + f"ensures#{f['clause'] or '?'}"
        return base
    if k == "requires":
        site = f["site"]["call"] if f["site"] and f["site"].get("call") else "?"
        if f["clause"] is None:
            return f"{u.name}::{fn}@{site}::panic-reachable"
        return f"{u.name}::{fn}@{site}::requires#{f['clause']}"
    if k == "overflow":
        site = f["site"]["op"] if f["site"] and f["site"].get("op") else "?"
        return f"{u.name}::{fn}@{site}::overflow"
    if k in ("invariant", "decreases"):
        return f"{u.name}::{fn}::{f.get('sub') or 'loop'}::{k}#{f['clause'] or '?'}"
    if k == "assert":
        return f"{u.name}::{fn}::assert#{f['clause'] or '?'}"
    return f"{u.name}::{fn}::{k}"
