// ---- env/life_env.rs: the in-process table, channels and timer as seen by the lifecycle -------
// Assumptions (listed in evidence):
//  * Exclusive phase: from spawn until our own resolve() the table holds the entry of `hash`
//    (handle_htlc's or_insert_with creates it before spawning us; only resolve() removes it).
//  * its `amount_received_msat` / `cltv_expiry` are the sum / minimum over the HTLCs held
//    (representation invariant proved in unit paystate).
impl Mutex<HashMap<Hash, htlc_manager::PaymentState>> {
    #[verifier::external_body]
    fn lock(&self, Tracked(w): Tracked<&mut World>) -> (g: MutexGuard<HashMap<Hash, htlc_manager::PaymentState>>)
        requires !old(w).lock_held,
        ensures rely(World { lock_held: true, received_read: final(w).received_read, min_expiry_read: final(w).min_expiry_read, height_at_init: final(w).height_at_init, ..*old(w) }, *final(w)),
            final(w).lock_held, g.snap@ == *final(w),
            final(w).received_read == final(w).received, final(w).min_expiry_read == final(w).min_expiry,
            final(w).height_at_init == final(w).height,
    { unimplemented!() }
}
impl MutexGuard<HashMap<Hash, htlc_manager::PaymentState>> {
    #[verifier::external_body]
    fn get(&self, k: &Hash) -> (r: Option<&htlc_manager::PaymentState>)
        ensures (!self.snap@.released && *k == self.snap@.hash) ==> (r is Some
            && r->0.amount_received_msat as int == self.snap@.received
            && r->0.cltv_expiry as int == self.snap@.min_expiry),
    { unimplemented!() }
    // access without removal: the entry stays in the table (the world is not changed)
    #[verifier::external_body]
    fn get_mut<'a>(&'a mut self, k: &Hash) -> (r: Option<&'a mut htlc_manager::PaymentState>)
        ensures (!old(self).snap@.released && *k == old(self).snap@.hash) ==> r is Some,
            final(self).snap@ == old(self).snap@,
    { unimplemented!() }
    #[verifier::external_body]
    fn remove(&mut self, k: &Hash, Tracked(w): Tracked<&mut World>) -> (r: Option<htlc_manager::PaymentState>)
        requires *k == old(w).hash, old(w).lock_held,
        ensures !old(w).released ==> r is Some,
            *final(w) == (World { released: true, ..*old(w) }),
    { unimplemented!() }
}
// recv() completes only when a value is available (or all senders are gone); meanwhile the
// environment runs.  Guarantees of the sending side (proved in units paystate / handle):
//  * fail channel: every value sent is a `Fail`, and it is sent only on a policy rejection;
//  * ready channel: a value is sent only when fee_sufficient(received, amount) held, and `received`
//    only grows while the entry exists;
//  * both senders live in the table entry, so in the Exclusive phase recv() cannot return None.
impl mpsc::Receiver<HtlcAcceptedResponse> {
    #[verifier::external_body]
    pub fn recv(&mut self, Tracked(w): Tracked<&mut World>) -> (r: Option<HtlcAcceptedResponse>)
        requires !old(w).lock_held,
        ensures rely(World { fail_sent: true, fail_received: final(w).fail_received, ..*old(w) }, *final(w)), final(w).fail_sent,
            r is Some ==> r->0 is Fail,
            // the value taken out of the channel is remembered (ghost): the lifecycle must answer with it
            r is Some ==> final(w).fail_received == Some(resp_abs(r->0)),
            r is None ==> final(w).fail_received == old(w).fail_received,
            !old(w).released ==> r is Some,
    { unimplemented!() }
}
impl mpsc::Receiver<()> {
    #[verifier::external_body]
    pub fn recv(&mut self, Tracked(w): Tracked<&mut World>) -> (r: Option<()>)
        requires !old(w).lock_held,
        ensures rely(*old(w), *final(w)),
            !old(w).released ==> r is Some,
            r is Some ==> fee_rhs(final(w).pol_base, final(w).pol_ppm, final(w).amount) <= final(w).received,
    { unimplemented!() }
}
pub mod tokio { pub mod time {
    use super::super::*;
    pub use crate::Instant;
    // tokio::time::sleep(d) completes no earlier than d after it was started.
    #[verifier::external_body]
    pub fn sleep(d: Duration, Tracked(w): Tracked<&mut World>)
        requires !old(w).lock_held,
            dur_ns(d) <= old(w).mpp_timeout_ns,   // #sleep_at_most_one_timeout [C11,C06,C19]
            old(w).fresh_start ==> dur_ns(d) == old(w).mpp_timeout_ns,   // #a_payment_with_no_earlier_attempt_waits_the_whole_timeout [C11,C12]
        ensures rely(World { slept_ns: final(w).slept_ns, ..*old(w) }, *final(w)),
            final(w).slept_ns == dur_ns(d), final(w).now_ns >= old(w).now_ns + dur_ns(d),
    { unimplemented!() }
} }
// E3d drop model of `PaymentProvider::pay` (NOT cancellation safe): the future was polled and then dropped
// because another select! arm completed first.  The request may have reached the node: our pay command may
// be running there and parts may appear (the rely with pay_running set); whether it is still running is
// unknown; nothing of ours changed.  ASSUMED (tokio: dropping a future cancels only the local wait).
#[verifier::external_body]
pub fn pay__dropped<T, R>(p: &T, req: R, Tracked(w): Tracked<&mut World>)
    ensures
        rely_env(World { pay_running: true, ..*old(w) }, World { pay_running: true, ..*final(w) }),
        ds_hash_unchanged(*old(w), *final(w)),
        final(w).faulted == old(w).faulted,
{ unimplemented!() }
