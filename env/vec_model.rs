// ---- env/vec_model.rs: trusted model of std `Vec<T>` + `slice::Iter` as used by
// SerializedTlvStream::{get, remove} (unit tlv_get).  std semantics assumed here:
//   iter()          yields the elements in order;
//   find(pred)      returns the FIRST element on which the predicate answered true, None if it
//                   answered false on all of them (the predicate sees `&&T`);
//   position(pred)  returns the FIRST index whose element satisfies the predicate, None if none;
//   Vec::remove(i)  panics unless i < len, removes exactly that element, keeps the order;
//   Vec::swap_remove(i) panics unless i < len, moves the last element into position i;
//   (Option<&T>::cloned is specified by vstd: clones the element.)
// (vstd's own spec of Iterator::find has no first-match / None half and a provided trait method
// cannot be given an assume_specification, hence this shadow type in module `tlv` of the unit.)
pub mod vec_model {
    use super::*;
    #[verifier::reject_recursive_types(T)]
    #[verifier::external_body]
    pub struct Vec<T> { pub p: core::marker::PhantomData<T> }
    impl<T> View for Vec<T> {
        type V = Seq<T>;
        uninterp spec fn view(&self) -> Seq<T>;
    }
    #[verifier::reject_recursive_types(T)]
    #[verifier::external_body]
    pub struct VIter<'a, T> { pub p: core::marker::PhantomData<&'a T> }
    impl<'a, T> VIter<'a, T> {
        pub uninterp spec fn rest(&self) -> Seq<T>;
    }
    impl<T> Vec<T> {
        #[verifier::external_body]
        pub fn iter(&self) -> (r: VIter<'_, T>) ensures r.rest() == self@ { unimplemented!() }
        #[verifier::external_body]
        pub fn remove(&mut self, i: usize) -> (r: T)
            requires i < old(self)@.len(),          // std: panics otherwise
            ensures final(self)@ == old(self)@.remove(i as int), r == old(self)@[i as int]
        { unimplemented!() }
        #[verifier::external_body]
        pub fn swap_remove(&mut self, i: usize) -> (r: T)
            requires i < old(self)@.len(),          // std: panics otherwise
            // std: the removed element is replaced by the last element (order NOT preserved)
            ensures r == old(self)@[i as int],
                final(self)@ == (if i as int == old(self)@.len() - 1 { old(self)@.drop_last() } else { old(self)@.drop_last().update(i as int, old(self)@.last()) })
        { unimplemented!() }
    }
    impl<T> Vec<T> {
        /// std: "If the slice is not sorted by the key, the returned result is unspecified and
        /// meaningless" -- so the result means something only under `sorted`: Ok(i) is an index whose
        /// key is the one looked for, Err(_) says no element has it
        #[verifier::external_body]
        pub fn binary_search_by_key<'a, F: FnMut(&'a T) -> u64>(&'a self, b: &u64, f: F) -> (r: ::std::result::Result<usize, usize>)
            requires forall|x: &T| call_requires(f, (x,)),
            ensures
                (forall|i: int, j: int, ki: u64, kj: u64| 0 <= i < j < self@.len() && call_ensures(f, (&self@[i],), ki) && call_ensures(f, (&self@[j],), kj) ==> ki <= kj)
                ==> match r {
                    Ok(i) => (i as int) < self@.len() && call_ensures(f, (&self@[i as int],), *b),
                    Err(_) => forall|j: int| 0 <= j < self@.len() ==> !call_ensures(f, (&(#[trigger] self@[j]),), *b),
                },
        { unimplemented!() }
    }
    impl<T> vstd::std_specs::core::IndexSpecImpl<usize> for Vec<T> {
        open spec fn index_req(&self, i: &usize) -> bool { *i < self@.len() }     // std: panics otherwise
    }
    impl<T> core::ops::Index<usize> for Vec<T> {
        type Output = T;
        #[verifier::external_body]
        fn index(&self, i: usize) -> (o: &T) ensures *o == self@[i as int] { unimplemented!() }
    }
    impl<'a, T> VIter<'a, T> {
        #[verifier::external_body]
        pub fn find<P: FnMut(&&'a T) -> bool>(&mut self, pred: P) -> (r: Option<&'a T>)
            requires forall|x: &&T| call_requires(pred, (x,)),
            ensures match r {
                Some(x) => exists|i: int| 0 <= i < old(self).rest().len() && *x == old(self).rest()[i]
                    && call_ensures(pred, (&&old(self).rest()[i],), true)
                    && forall|j: int| 0 <= j < i ==> call_ensures(pred, (&&(#[trigger] old(self).rest()[j]),), false),
                None => forall|j: int| 0 <= j < old(self).rest().len() ==> call_ensures(pred, (&&(#[trigger] old(self).rest()[j]),), false),
            }
        { unimplemented!() }
        #[verifier::external_body]
        pub fn position<P: FnMut(&'a T) -> bool>(&mut self, pred: P) -> (r: Option<usize>)
            requires forall|x: &T| call_requires(pred, (x,)),
            ensures match r {
                Some(i) => (i as int) < old(self).rest().len()
                    && call_ensures(pred, (&old(self).rest()[i as int],), true)
                    && forall|j: int| 0 <= j < i ==> call_ensures(pred, (&(#[trigger] old(self).rest()[j]),), false),
                None => forall|j: int| 0 <= j < old(self).rest().len() ==> call_ensures(pred, (&(#[trigger] old(self).rest()[j]),), false),
            }
        { unimplemented!() }
    }
}
