// ---- env/cln_rpc.rs: CLN datastore RPCs against the ghost world (assumed semantics) ------------
pub mod cln {
    use super::*;
    pub enum DatastoreMode { MUST_CREATE, MUST_REPLACE, CREATE_OR_REPLACE, MUST_APPEND, CREATE_OR_APPEND }
    pub struct DatastoreRequest {
        pub generation: Option<u64>, pub key: Vec<String>, pub string: Option<String>,
        pub hex: Option<String>, pub mode: Option<DatastoreMode>,
    }
    pub struct DatastoreResponse { pub generation: Option<u64>, pub string: Option<String> }
    pub struct ListdatastoreRequest { pub key: Option<Vec<String>> }
    pub struct ListdatastoreDatastore { pub generation: Option<u64>, pub string: Option<String>, pub key: Vec<String> }
    /// env sequence type for the `datastore` field (std Vec semantics of into_iter().nth(n))
    pub struct DsList { pub v: Vec<ListdatastoreDatastore> }
    pub struct DsIntoIter { pub v: Vec<ListdatastoreDatastore> }
    impl DsList {
        #[verifier::external_body]
        pub fn into_iter(self) -> (r: DsIntoIter) ensures r.v@ == self.v@ { unimplemented!() }
    }
    impl DsIntoIter {
        #[verifier::external_body]
        pub fn nth(&mut self, n: usize) -> (r: Option<ListdatastoreDatastore>)
            ensures (n as int) < old(self).v@.len() ==> r == Some(old(self).v@[n as int]),
                (n as int) >= old(self).v@.len() ==> r is None,
        { unimplemented!() }
    }
    pub struct ListdatastoreResponse { pub datastore: DsList }
}
pub use cln::{DatastoreMode, DatastoreRequest, DatastoreResponse, ListdatastoreRequest, ListdatastoreResponse};
pub struct RpcError { pub _p: u8 }
impl ::std::convert::From<RpcError> for AnyErr { #[verifier::external_body] fn from(e: RpcError) -> AnyErr { unimplemented!() } }
impl vstd::std_specs::convert::FromSpecImpl<RpcError> for AnyErr {
    open spec fn obeys_from_spec() -> bool { false }
    open spec fn from_spec(v: RpcError) -> Self { arbitrary() }
}

pub open spec fn key_view(k: Vec<String>) -> Key { Seq::new(k@.len(), |i: int| k@[i]@) }

pub open spec fn ds_mode_ok(m: World, req: DatastoreRequest) -> bool {
    let k = key_view(req.key);
    let ex = m.ds.contains_key(k);
    let gen_ok = req.generation is Some ==> (ex && m.ds[k].1 == req.generation->0);
    match req.mode {
        Some(DatastoreMode::MUST_CREATE) => !ex && req.generation is None,
        Some(DatastoreMode::MUST_REPLACE) => ex && gen_ok,
        Some(DatastoreMode::CREATE_OR_REPLACE) => gen_ok,
        _ => false,
    }
}
pub open spec fn ds_newgen(m: World, k: Key) -> u64 { if m.ds.contains_key(k) { (m.ds[k].1 + 1) as u64 } else { 0 } }
pub open spec fn ds_applied(m: World, req: DatastoreRequest) -> Map<Key, (Seq<char>, u64)> {
    m.ds.insert(key_view(req.key), (req.string->0@, ds_newgen(m, key_view(req.key))))
}
/// one datastore RPC taking effect atomically at world `m`
pub open spec fn ds_step(m: World, req: DatastoreRequest, r: ::std::result::Result<DatastoreResponse, RpcError>, f: World) -> bool {
    let k = key_view(req.key);
    &&& f == (World { ds: f.ds, faulted: f.faulted, attempted: f.attempted, ..m })
    &&& f.attempted == (m.attempted || (k == state_key_spec(m.hash) && de_state(req.string->0@) is Pending))
    &&& ({
            // transport fault: reported failed, effect applied or not
            ||| (r is Err && f.faulted && (f.ds == m.ds || (ds_mode_ok(m, req) && f.ds == ds_applied(m, req))))
            // accepted
            ||| (f.faulted == m.faulted && ds_mode_ok(m, req) && r is Ok && f.ds == ds_applied(m, req)
                 && r->Ok_0.generation == Some(ds_newgen(m, k)))
            // rejected
            ||| (f.faulted == m.faulted && !ds_mode_ok(m, req) && r is Err && f.ds == m.ds)
        })
}
/// rely-closure in front of the atomic effect (what other tasks and the node do while we wait)
pub open spec fn ds_call(a: World, req: DatastoreRequest, r: ::std::result::Result<DatastoreResponse, RpcError>, f: World) -> bool {
    exists|m: World| #![trigger rely(a, m)] rely(a, m) && ds_step(m, req, r, f)
}

/// step_ok (C08): taking this write now, or at any later instant the rely allows, preserves `inv`.
pub open spec fn safe_write(w: World, req: DatastoreRequest) -> bool {
    let k = key_view(req.key);
    &&& req.string is Some
    &&& is_hash_key(k, w.hash)
    &&& (k == state_key_spec(w.hash) ==> match de_state(req.string->0@) {
            StoreAbs::Pending { .. } => true,
            StoreAbs::Succeeded { preimage } => preimage == preimage_of(w.hash),
            StoreAbs::Free => req.generation is Some && req.mode == Some(DatastoreMode::MUST_REPLACE)
                && store_gen(w) >= req.generation->0 as int
                && (store_gen(w) == req.generation->0 as int ==> (!live(w) && !w.pay_running)),
            _ => false,
        })
}

pub struct Rpc { pub _p: u8 }
impl Rpc {
    #[verifier::external_body]
    pub fn datastore(&self, request: &DatastoreRequest, Tracked(w): Tracked<&mut World>) -> (r: ::std::result::Result<DatastoreResponse, RpcError>)
        requires
            !old(w).lock_held,                       // #no_rpc_under_lock [C14,C06,C11]
            is_hash_key(key_view(request.key), old(w).hash),   // #keys_namespaced_by_payment_hash [C14,C01,C05,C09]
            safe_write(*old(w), *request),           // #write_preserves_durable_invariant [C08,C02,C05,C01,C09]
        ensures ds_call(*old(w), *request, r, *final(w)),
    { unimplemented!() }

    #[verifier::external_body]
    pub fn listdatastore(&self, request: &ListdatastoreRequest, Tracked(w): Tracked<&mut World>) -> (r: ::std::result::Result<ListdatastoreResponse, RpcError>)
        requires
            !old(w).lock_held,                       // #no_rpc_under_lock [C14,C06,C11]
            request.key is Some && is_hash_key(key_view(request.key->0), old(w).hash),   // #keys_namespaced_by_payment_hash [C14,C01,C05,C09]
        ensures
            rely(World { wait_started_ns: final(w).wait_started_ns, ..*old(w) }, *final(w)),
            old(w).now_ns <= final(w).wait_started_ns <= final(w).now_ns,
            r is Ok ==> ({
                let k = key_view(request.key->0);
                let l = r->Ok_0.datastore.v@;
                if final(w).ds.contains_key(k) {
                    l.len() == 1 && l[0].string is Some && l[0].string->0@ == final(w).ds[k].0 && l[0].generation == Some(final(w).ds[k].1)
                } else { l.len() == 0 }
            }),
    { unimplemented!() }
}

// ---- serde_json (assumed: serialisation of the two record types round-trips) -------------------
pub struct SerdeErr { pub _p: u8 }
impl ::std::convert::From<SerdeErr> for AnyErr { #[verifier::external_body] fn from(e: SerdeErr) -> AnyErr { unimplemented!() } }
impl vstd::std_specs::convert::FromSpecImpl<SerdeErr> for AnyErr {
    open spec fn obeys_from_spec() -> bool { false }
    open spec fn from_spec(v: SerdeErr) -> Self { arbitrary() }
}
pub mod serde_json {
    use super::*;
    pub type Error = SerdeErr;
    pub type Result<T> = ::std::result::Result<T, SerdeErr>;
    pub uninterp spec fn ser<T>(v: T) -> Seq<char>;
    pub uninterp spec fn de<T>(s: Seq<char>) -> Option<T>;
    #[verifier::external_body]
    pub fn to_string<T>(v: &T) -> (r: ::std::result::Result<String, SerdeErr>) ensures r is Ok, r->Ok_0@ == ser(*v) { unimplemented!() }
    #[verifier::external_body]
    pub fn from_str<T>(s: &str) -> (r: ::std::result::Result<T, SerdeErr>)
        ensures match r { Ok(v) => de::<T>(s@) == Some(v), Err(_) => de::<T>(s@) is None }
    { unimplemented!() }
}
