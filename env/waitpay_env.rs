// ---- env/waitpay_env.rs: the node's sendpay parts of ONE payment hash, as sets (unit waitpay) ----
pub type PartId = (u64, Option<u64>);
pub struct Node {
    pub pending: Set<PartId>,                 // parts still pending
    pub completed: Map<PartId, Seq<u8>>,      // completed parts and their preimages
    pub hash: Hash,
}
pub open spec fn node_wf(n: Node) -> bool {
    forall|id: PartId| #![trigger n.pending.contains(id)] #![trigger n.completed.contains_key(id)] !(n.pending.contains(id) && n.completed.contains_key(id))
}
/// What the node may do between two of our RPCs while no pay command for the hash is running:
/// pending parts only resolve; a part completes only out of the pending set; a completed part
/// stays completed with the same preimage.
pub open spec fn node_rely(a: Node, b: Node) -> bool {
    &&& b.hash == a.hash
    &&& node_wf(b)
    &&& (forall|id: PartId| #![trigger b.pending.contains(id)] b.pending.contains(id) ==> a.pending.contains(id))
    &&& (forall|id: PartId| #![trigger a.completed.contains_key(id)] a.completed.contains_key(id) ==> (b.completed.contains_key(id) && b.completed[id] == a.completed[id]))
    &&& (forall|id: PartId| #![trigger b.completed.contains_key(id)] b.completed.contains_key(id) ==> (a.completed.contains_key(id) || a.pending.contains(id)))
}
pub open spec fn gone(id: PartId, n: Node) -> bool { !n.pending.contains(id) && !n.completed.contains_key(id) }
pub open spec fn listed(l: Seq<ListsendpaysPayments>, id: PartId) -> bool { exists|i: int| 0 <= i < l.len() && part_id(#[trigger] l[i]) == id }
pub open spec fn nothing_live(n: Node) -> bool {
    (forall|id: PartId| #![trigger n.pending.contains(id)] !n.pending.contains(id)) && (forall|id: PartId| #![trigger n.completed.contains_key(id)] !n.completed.contains_key(id))
}

#[derive(Clone, Copy)]
pub struct Secret { pub b: [u8; 32] }
impl Secret { #[verifier::external_body] pub fn to_vec(&self) -> (r: Vec<u8>) ensures r@ == self.b@ { unimplemented!() } }
pub enum ListsendpaysStatus { PENDING, COMPLETE, FAILED }
pub struct ListsendpaysRequest {
    pub payment_hash: Option<sha256::Hash>, pub bolt11: Option<String>, pub index: Option<u8>, pub limit: Option<u32>,
    pub start: Option<u64>, pub status: Option<ListsendpaysStatus>,
}
pub struct ListsendpaysPayments { pub groupid: u64, pub partid: Option<u64>, pub payment_preimage: Option<Secret> }
pub open spec fn part_id(p: ListsendpaysPayments) -> PartId { (p.groupid, p.partid) }
/// env sequence type for the `payments` field: std semantics of iter().filter_map(f).next()
/// (first element for which f returns Some) and of by-value iteration (trusted model).
pub struct PayList { pub v: Vec<ListsendpaysPayments> }
pub struct PayIter<'a> { pub v: &'a Vec<ListsendpaysPayments> }
pub struct PayFilterMap<'a, F> { pub v: &'a Vec<ListsendpaysPayments>, pub f: F }
impl PayList {
    #[verifier::external_body]
    pub fn iter(&self) -> (r: PayIter<'_>) ensures r.v@ == self.v@ { unimplemented!() }
    #[verifier::external_body]
    pub fn is_empty(&self) -> (r: bool) ensures r == (self.v@.len() == 0) { unimplemented!() }
    #[verifier::external_body]
    pub fn len(&self) -> (r: usize) ensures r == self.v@.len() { unimplemented!() }
    #[verifier::external_body]
    pub fn first(&self) -> (r: Option<&ListsendpaysPayments>)
        ensures self.v@.len() == 0 ==> r is None, self.v@.len() > 0 ==> r == Some(&self.v@[0])
    { unimplemented!() }
}
impl<'a> PayIter<'a> {
    #[verifier::external_body]
    pub fn filter_map<B, F: FnMut(&'a ListsendpaysPayments) -> Option<B>>(self, f: F) -> (r: PayFilterMap<'a, F>)
        ensures r.v@ == self.v@, r.f == f
    { unimplemented!() }
}
/// iter().map(f).max(): None on an empty listing, otherwise one of the values f yields (that it is the
/// largest is not stated: a weaker postcondition only allows more behaviours)
pub struct PayMap<'a, F> { pub v: &'a Vec<ListsendpaysPayments>, pub f: F }
impl<'a> PayIter<'a> {
    #[verifier::external_body]
    pub fn map<B, F: FnMut(&'a ListsendpaysPayments) -> B>(self, f: F) -> (r: PayMap<'a, F>)
        ensures r.v@ == self.v@, r.f == f
    { unimplemented!() }
}
impl<'a, F> PayMap<'a, F> {
    #[verifier::external_body]
    pub fn max<B: Ord>(self) -> (r: Option<B>) where F: FnMut(&'a ListsendpaysPayments) -> B
        requires forall|x: &ListsendpaysPayments| call_requires(self.f, (x,)),
        ensures
            self.v@.len() == 0 ==> r is None,
            self.v@.len() > 0 ==> (r is Some && exists|i: int| 0 <= i < self.v@.len() && call_ensures(self.f, (&(#[trigger] self.v@[i]),), r->0)),
    { unimplemented!() }
    #[verifier::external_body]
    pub fn min<B: Ord>(self) -> (r: Option<B>) where F: FnMut(&'a ListsendpaysPayments) -> B
        requires forall|x: &ListsendpaysPayments| call_requires(self.f, (x,)),
        ensures
            self.v@.len() == 0 ==> r is None,
            self.v@.len() > 0 ==> (r is Some && exists|i: int| 0 <= i < self.v@.len() && call_ensures(self.f, (&(#[trigger] self.v@[i]),), r->0)),
    { unimplemented!() }
}
impl<'a> PayIter<'a> {
    /// find_map(f) == filter_map(f).next(): the first element for which f returns Some
    #[verifier::external_body]
    pub fn find_map<B, F: FnMut(&'a ListsendpaysPayments) -> Option<B>>(&mut self, f: F) -> (r: Option<B>)
        requires forall|x: &ListsendpaysPayments| call_requires(f, (x,)),
        ensures
            r is None ==> forall|i: int| 0 <= i < old(self).v@.len() ==> call_ensures(f, (&(#[trigger] old(self).v@[i]),), None::<B>),
            r is Some ==> exists|i: int| 0 <= i < old(self).v@.len() && call_ensures(f, (&(#[trigger] old(self).v@[i]),), r),
    { unimplemented!() }
}
impl<'a, F> PayFilterMap<'a, F> {
    #[verifier::external_body]
    pub fn next<B>(&mut self) -> (r: Option<B>) where F: FnMut(&'a ListsendpaysPayments) -> Option<B>
        requires forall|x: &ListsendpaysPayments| call_requires(old(self).f, (x,)),
        ensures
            r is None ==> forall|i: int| 0 <= i < old(self).v@.len() ==> call_ensures(old(self).f, (&(#[trigger] old(self).v@[i]),), None::<B>),
            r is Some ==> exists|i: int| 0 <= i < old(self).v@.len() && call_ensures(old(self).f, (&(#[trigger] old(self).v@[i]),), r),
    { unimplemented!() }
}
/// by-value iteration (`for payment in list`): env iterator with vstd's prophetic-iterator spec
pub struct PayIntoIter { pub v: Vec<ListsendpaysPayments> }
impl ::std::iter::Iterator for PayIntoIter {
    type Item = ListsendpaysPayments;
    #[verifier::external_body]
    fn next(&mut self) -> (r: Option<ListsendpaysPayments>) { unimplemented!() }
}
impl vstd::std_specs::iter::IteratorSpecImpl for PayIntoIter {
    open spec fn obeys_prophetic_iter_laws(&self) -> bool { true }
    open spec fn remaining(&self) -> Seq<ListsendpaysPayments> { self.v@ }
    open spec fn will_return_none(&self) -> bool { true }
    open spec fn decrease(&self) -> Option<nat> { Some(self.v@.len()) }
    open spec fn peek(&self, i: int) -> Option<ListsendpaysPayments> { if 0 <= i < self.v@.len() { Some(self.v@[i]) } else { None } }
}
impl ::std::iter::IntoIterator for PayList {
    type Item = ListsendpaysPayments;
    type IntoIter = PayIntoIter;
    #[verifier::external_body]
    fn into_iter(self) -> (r: PayIntoIter) ensures r.v@ == self.v@ { unimplemented!() }
}
pub struct ListsendpaysResponse { pub payments: PayList }
pub struct WaitsendpayRequest { pub groupid: Option<u64>, pub partid: Option<u64>, pub payment_hash: sha256::Hash, pub timeout: Option<u32> }
pub struct WaitsendpayResponse { pub payment_preimage: Option<Secret> }

pub mod cln_rpc_err { pub struct ClnRpcError { pub code: Option<i32>, pub message: String } }
pub open spec fn part_failure_code(c: i32) -> bool { c == 202 || c == 203 || c == 204 || c == 208 || c == 209 }
pub mod rpc {
    use super::*;
    pub enum RpcError { Rpc(cln_rpc_err::ClnRpcError), General(AnyErr) }
    pub type WaitRes = ::std::result::Result<WaitsendpayResponse, RpcError>;
    /// what a waitsendpay result says about its part, at the instant it is returned and (by
    /// node_rely) at every later instant
    pub open spec fn wait_fact(id: PartId, r: WaitRes, n: Node) -> bool {
        match r {
            Ok(res) => match res.payment_preimage {
                Some(p) => n.completed.contains_key(id) && n.completed[id] == p.b@,
                None => !n.pending.contains(id) && !n.completed.contains_key(id),
            },
            Err(RpcError::Rpc(e)) => (e.code is Some && part_failure_code(e.code->0)) ==> (!n.pending.contains(id) && !n.completed.contains_key(id)),
            Err(RpcError::General(_)) => true,
        }
    }
    pub trait ClnRpc {
        /// snapshot of the parts with the requested status, taken at the instant the node serves the call
        fn listsendpays(&self, request: &ListsendpaysRequest, Tracked(n): Tracked<&mut Node>) -> (r: ::std::result::Result<ListsendpaysResponse, RpcError>)
            requires node_wf(*old(n)), request.payment_hash == Some(old(n).hash),
            ensures node_rely(*old(n), *final(n)),
                r is Ok ==> match request.status {
                    Some(ListsendpaysStatus::PENDING) =>
                        (forall|id: PartId| final(n).pending.contains(id) ==> listed(r->Ok_0.payments.v@, id)),
                    Some(ListsendpaysStatus::COMPLETE) =>
                        (forall|id: PartId| final(n).completed.contains_key(id) ==> exists|i: int| 0 <= i < r->Ok_0.payments.v@.len()
                              && part_id(#[trigger] r->Ok_0.payments.v@[i]) == id && r->Ok_0.payments.v@[i].payment_preimage is Some)
                        && (forall|i: int| 0 <= i < r->Ok_0.payments.v@.len() && (#[trigger] r->Ok_0.payments.v@[i]).payment_preimage is Some ==>
                              (final(n).completed.contains_key(part_id(r->Ok_0.payments.v@[i]))
                               && final(n).completed[part_id(r->Ok_0.payments.v@[i])] == r->Ok_0.payments.v@[i].payment_preimage->0.b@)),
                    _ => true,
                };
        /// returns when the part is no longer pending (or with a transport / timeout error)
        fn waitsendpay(&self, request: WaitsendpayRequest, Tracked(n): Tracked<&mut Node>) -> (r: WaitRes)
            requires node_wf(*old(n)), request.groupid is Some,
                request.timeout is None,   // #waits_without_a_deadline_of_its_own [C15,C02,C16,C05,C08,C03,C09]
            ensures node_rely(*old(n), *final(n)), wait_fact((request.groupid->0, request.partid), r, *final(n));
    }
}
impl ::std::convert::From<rpc::RpcError> for AnyErr { #[verifier::external_body] fn from(e: rpc::RpcError) -> AnyErr { unimplemented!() } }
impl vstd::std_specs::convert::FromSpecImpl<rpc::RpcError> for AnyErr {
    open spec fn obeys_from_spec() -> bool { false }
    open spec fn from_spec(v: rpc::RpcError) -> Self { arbitrary() }
}
pub mod futures_env {
    use super::*;
    /// FuturesUnordered of the waitsendpay futures.  Under E2 every pushed call has already run to
    /// completion; next() hands the results back in ARBITRARY order (demonic).  Each element carries
    /// the ghost id of the part it waited for (edit E4: `Ghost(id)` appended to push).
    pub struct FuturesUnordered<T> { pub items: Ghost<Seq<(PartId, T)>> , pub p: core::marker::PhantomData<T> }
    impl<T> FuturesUnordered<T> {
        pub closed spec fn view(&self) -> Seq<(PartId, T)> { self.items@ }
        #[verifier::external_body]
        pub fn new() -> (r: Self) ensures r.view().len() == 0 { unimplemented!() }
        #[verifier::external_body]
        pub fn push(&mut self, t: T, Ghost(id): Ghost<PartId>) ensures final(self).view() == old(self).view().push((id, t)) { unimplemented!() }
        #[verifier::external_body]
        pub fn is_empty(&self) -> (r: bool) ensures r == (self.view().len() == 0) { unimplemented!() }
        #[verifier::external_body]
        pub fn len(&self) -> (r: usize) ensures r == self.view().len() { unimplemented!() }
        #[verifier::external_body]
        pub fn next(&mut self) -> (r: Option<T>)
            ensures old(self).view().len() == 0 ==> (r is None && final(self).view() == old(self).view()),
                old(self).view().len() > 0 ==> (r is Some && exists|i: int| 0 <= i < old(self).view().len()
                    && (#[trigger] old(self).view()[i]).1 == r->0 && final(self).view() == old(self).view().remove(i)),
        { unimplemented!() }
    }
}
pub use futures_env::FuturesUnordered;
