// ---- env/ln_types.rs: opaque mirrors of secp256k1 / lightning_invoice types -------------------
#[derive(Clone, Copy, PartialEq, Eq)]
pub struct Hash { pub b: [u8; 32] }
pub mod sha256 { pub use super::Hash; }
impl Hash {
    pub uninterp spec fn hex_spec(&self) -> Seq<char>;
    // Assumption (listed): lower-case hex encoding of 32 bytes is injective.
    #[verifier::external_body]
    pub fn encode_hex(&self) -> (r: String) ensures r@ == self.hex_spec() { unimplemented!() }
}
pub broadcast axiom fn axiom_hex_injective(a: Hash, b: Hash)
    ensures #![trigger a.hex_spec(), b.hex_spec()] a.hex_spec() == b.hex_spec() ==> a == b;

#[derive(Clone, Copy, PartialEq, Eq)]
pub struct PublicKey { pub b: [u8; 33] }

pub struct Bolt11Invoice { pub _p: u8 }
impl PartialEq for Bolt11Invoice {
    // structural equality (lightning_invoice derives PartialEq on the parsed invoice)
    #[verifier::external_body]
    fn eq(&self, o: &Self) -> (r: bool) ensures r == (*self == *o) { unimplemented!() }
}
impl Bolt11Invoice {
    pub uninterp spec fn hash_spec(&self) -> Hash;
    pub uninterp spec fn amount_spec(&self) -> Option<u64>;
    pub uninterp spec fn sig_ok_spec(&self) -> bool;
    pub uninterp spec fn payee_spec(&self) -> PublicKey;
    /// Display of a parsed invoice: its canonical (lowercase bech32) rendering -- NOT necessarily the
    /// text it was parsed from (BOLT11 allows all-uppercase)
    pub uninterp spec fn canonical_text(&self) -> Seq<char>;
    #[verifier::external_body]
    pub fn to_string(&self) -> (r: String) ensures r@ == self.canonical_text() { unimplemented!() }
    #[verifier::external_body]
    pub fn payment_hash(&self) -> (r: &Hash) ensures *r == self.hash_spec() { unimplemented!() }
    #[verifier::external_body]
    pub fn amount_milli_satoshis(&self) -> (r: Option<u64>) ensures r == self.amount_spec() { unimplemented!() }
}
