// ---- env/rpc_env.rs: the `cln_rpc` crate as seen by src/rpc.rs (assumed) -------------------------
// A connection is opened per call (ClnRpc::new); call_typed sends one request and returns what the
// node answered: a typed response, or the node's JSON-RPC error (with its numeric code).  The ghost
// trace records, per method call of our wrapper, whether a request was sent and what came back; the
// wrapper's contract (specs/rpc.rs) says it hands exactly that to its caller.
pub struct Trace<Q, T> {
    pub sent: Option<Q>,                                           // the request that went out on the wire
    pub called: bool,                                              // a request was sent on a connection
    pub last: Option<::std::result::Result<T, cln_rpc::RpcError>>, // what the node answered to it
    pub shared_lock_held: bool,                                    // a lock shared between callers is held (must stay false while a request is outstanding)
}
pub mod cln_rpc {
    use super::*;
    /// the node's JSON-RPC error object
    pub struct RpcError { pub code: Option<i32>, pub message: String }
    pub struct ClnRpc { pub _p: u8 }
    pub trait TypedRequest { type Response; }
    impl ClnRpc {
        /// opens a fresh unix-socket connection (fails with a transport error if it cannot)
        #[verifier::external_body]
        pub fn new(path: String) -> (r: crate::anyhow::Result<ClnRpc>) { unimplemented!() }
        #[verifier::external_body]
        pub fn call_typed<R: TypedRequest>(&mut self, request: &R, Tracked(t): Tracked<&mut Trace<R, R::Response>>) -> (r: ::std::result::Result<R::Response, RpcError>)
            requires
                !old(t).called,             // #one_request_per_call [C17,C05,C16,C08]
                !old(t).shared_lock_held,   // #no_lock_shared_between_callers_across_a_request [C14,C06]
            ensures *final(t) == (Trace { called: true, last: Some(r), sent: Some(*request), ..*old(t) }),
        { unimplemented!() }
    }
    pub mod model {
        pub mod requests {
            use super::super::TypedRequest;
            pub struct DatastoreRequest { pub _p: u8 } pub struct GetinfoRequest {} pub struct ListdatastoreRequest { pub _p: u8 }
            pub struct ListsendpaysRequest { pub _p: u8 } pub struct PayRequest { pub _p: u8 }
            /// the real fields of cln-rpc 0.1.9 (payment_hash: an opaque Sha256)
            pub struct Sha256 { pub _p: u8 }
            pub struct WaitsendpayRequest { pub groupid: Option<u64>, pub partid: Option<u64>, pub timeout: Option<u32>, pub payment_hash: Sha256 }
            impl TypedRequest for DatastoreRequest { type Response = super::responses::DatastoreResponse; }
            impl TypedRequest for GetinfoRequest { type Response = super::responses::GetinfoResponse; }
            impl TypedRequest for ListdatastoreRequest { type Response = super::responses::ListdatastoreResponse; }
            impl TypedRequest for ListsendpaysRequest { type Response = super::responses::ListsendpaysResponse; }
            impl TypedRequest for PayRequest { type Response = super::responses::PayResponse; }
            impl TypedRequest for WaitsendpayRequest { type Response = super::responses::WaitsendpayResponse; }
        }
        pub mod responses {
            pub struct DatastoreResponse { pub _p: u8 } pub struct GetinfoResponse { pub _p: u8 } pub struct ListdatastoreResponse { pub _p: u8 }
            pub struct ListsendpaysResponse { pub _p: u8 } pub struct PayResponse { pub _p: u8 } pub struct WaitsendpayResponse { pub _p: u8 }
        }
    }
}
// anyhow::Context on a node-RPC result: Ok stays Ok with the same value, an error becomes an
// anyhow::Error (the node's error object is wrapped, its variant is no longer RpcError)
impl<T> Context<T> for ::std::result::Result<T, cln_rpc::RpcError> {
    #[verifier::external_body]
    fn context(self, c: &'static str) -> (r: anyhow::Result<T>)
        ensures self is Ok ==> r == Ok::<T, AnyErr>(self->Ok_0), self is Err ==> r is Err
    { unimplemented!() }
}
pub trait WithContext<T>: Sized { fn with_context<C, G: FnOnce() -> C>(self, f: G) -> (r: anyhow::Result<T>); }
impl<T> WithContext<T> for ::std::result::Result<T, cln_rpc::RpcError> {
    #[verifier::external_body]
    fn with_context<C, G: FnOnce() -> C>(self, f: G) -> (r: anyhow::Result<T>)
        ensures self is Ok ==> r == Ok::<T, AnyErr>(self->Ok_0), self is Err ==> r is Err
    { unimplemented!() }
}
