// ---- env/optread_env.rs: what ConfiguredPlugin::{option_str, option} (src/cln_plugin/mod.rs) see --
// HashMap<String, V>::get(&str) through its abstract map; Result<&T, E>::cloned as a structural copy
// (options::Value derives Clone).  ConfiguredPlugin is a mirror with the real field name
// `option_values` and its real type (the other fields -- streams, callbacks -- are not read here).
// `id`: ghost identity (a struct of PhantomData only would be single-valued: any two values provably equal)
pub struct HashMap<K, V> { pub _p: core::marker::PhantomData<(K, V)>, pub id: Ghost<int> }
impl<V> HashMap<String, V> {
    pub uninterp spec fn view(&self) -> Map<Seq<char>, V>;
    #[verifier::external_body]
    pub fn get(&self, k: &str) -> (r: Option<&V>)
        ensures match r { Some(v) => self@.contains_key(k@) && *v == self@[k@], None => !self@.contains_key(k@) },
    { unimplemented!() }
}
pub assume_specification<T: Clone, E>[::std::result::Result::<&T, E>::cloned](a: ::std::result::Result<&T, E>) -> (r: ::std::result::Result<T, E>)
    ensures match a { Ok(t) => r == ::std::result::Result::<T, E>::Ok(*t), Err(e) => r == ::std::result::Result::<T, E>::Err(e) };
pub type Result<T> = ::std::result::Result<T, AnyErr>;
pub struct ConfiguredPlugin { pub option_values: HashMap<String, Option<options::Value>> }
pub assume_specification<T, E, F>[::std::result::Result::<T, E>::or](a: ::std::result::Result<T, E>, b: ::std::result::Result<T, F>) -> (r: ::std::result::Result<T, F>)
    ensures r == (match a { Ok(t) => ::std::result::Result::<T, F>::Ok(t), Err(_) => b });
