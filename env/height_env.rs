// ---- env/height_env.rs: the shared height cell (tokio Mutex<u32>) and getinfo -------------------
// lock() gives exclusive access to the cell.  While we wait for it other tasks may run
// update_height; their guarantee is this unit's own postcondition (value == max of heights told,
// never decreasing), which is therefore what we may assume about the value we find.
impl Mutex<u32> {
    #[verifier::external_body]
    pub fn new(v: u32) -> (r: Mutex<u32>) { unimplemented!() }
    #[verifier::external_body]
    pub fn lock(&self, Tracked(w): Tracked<&mut World>) -> (g: &mut u32)
        requires
            old(w).height >= old(w).height_read,   // #critical_sections_never_lower_the_height [C20,C04]: what the previous section left is not below what it found
        ensures
            *g as int >= old(w).height,          // other holders only raise the value (their guarantee = this unit's postcondition)
            *final(w) == (World { height: *final(g) as int, height_read: *g as int, ..*old(w) }),
    { unimplemented!() }
}
pub struct GetinfoResponse { pub blockheight: u32 }
pub struct RpcError { pub _p: u8 }
impl ::std::convert::From<RpcError> for AnyErr { #[verifier::external_body] fn from(e: RpcError) -> AnyErr { unimplemented!() } }
impl vstd::std_specs::convert::FromSpecImpl<RpcError> for AnyErr {
    open spec fn obeys_from_spec() -> bool { false }
    open spec fn from_spec(v: RpcError) -> Self { arbitrary() }
}
pub struct Rpc { pub _p: u8 }
impl Rpc {
    #[verifier::external_body]
    pub fn get_info(&self, Tracked(w): Tracked<&mut World>) -> (r: ::std::result::Result<GetinfoResponse, RpcError>)
        ensures *final(w) == (World { last_polled: final(w).last_polled, ..*old(w) }),
            r is Ok ==> final(w).last_polled == r->Ok_0.blockheight as int,
    { unimplemented!() }
}
