// ---- env/height_env.rs: the shared height cell (tokio Mutex<u32>) and getinfo -------------------
// lock() gives exclusive access to the cell.  While we wait for it other tasks may run
// update_height; their guarantee is this unit's own postcondition (value == max of heights told,
// never decreasing), which is therefore what we may assume about the value we find.
impl Mutex<u32> {
    #[verifier::external_body]
    pub fn new(v: u32) -> (r: Mutex<u32>) { unimplemented!() }
    /// try_lock: fails when another task holds the cell at this instant (nothing is read or written)
    #[verifier::external_body]
    pub fn try_lock(&self, Tracked(w): Tracked<&mut World>) -> (r: ::std::result::Result<&mut u32, TryLockError>)
        requires old(w).height >= old(w).height_read,
        ensures match r {
            Ok(g) => *g as int >= old(w).height && *final(w) == (World { height: *final(g) as int, height_read: *g as int, ..*old(w) }),
            Err(_) => *final(w) == *old(w),
        }
    { unimplemented!() }
    #[verifier::external_body]
    pub fn lock(&self, Tracked(w): Tracked<&mut World>) -> (g: &mut u32)
        requires
            old(w).height >= old(w).height_read,   // #critical_sections_never_lower_the_height [C20,C04]: what the previous section left is not below what it found
        ensures
            *g as int >= old(w).height,          // other holders only raise the value (their guarantee = this unit's postcondition)
            *final(w) == (World { height: *final(g) as int, height_read: *g as int, ..*old(w) }),
    { unimplemented!() }
}
// the fields of cln-rpc 0.1.9 a height poll could look at (the rest of the real struct is not mirrored)
pub struct GetinfoResponse { pub blockheight: u32, pub warning_bitcoind_sync: Option<String>, pub warning_lightningd_sync: Option<String>, pub num_peers: u32, pub network: String, pub version: String }
pub struct RpcError { pub _p: u8 }
impl ::std::convert::From<RpcError> for AnyErr { #[verifier::external_body] fn from(e: RpcError) -> AnyErr { unimplemented!() } }
impl vstd::std_specs::convert::FromSpecImpl<RpcError> for AnyErr {
    open spec fn obeys_from_spec() -> bool { false }
    open spec fn from_spec(v: RpcError) -> Self { arbitrary() }
}
pub struct Rpc { pub _p: u8 }
impl Rpc {
    #[verifier::external_body]
    pub fn get_info(&self, Tracked(w): Tracked<&mut World>) -> (r: ::std::result::Result<GetinfoResponse, RpcError>)
        ensures *final(w) == (World { last_polled: final(w).last_polled, ..*old(w) }),
            r is Ok ==> final(w).last_polled == r->Ok_0.blockheight as int,
            r is Err ==> final(w).last_polled == old(w).last_polled,
    { unimplemented!() }
}

// ---- the periodic poll task (poll_forever): timer, shutdown channel, ghost wake-up counters -----
// `sleeps` counts the timer waits the task has started, `polls` the polls it has made after waking
// up (ghost marker placed right after the poll_height call).  Clause of C20's catch-up half, in
// its safety form: no timer wait is longer than the declared POLL_INTERVAL, and a new wait starts
// only when every earlier wake-up was followed by a poll (failed polls included).
pub struct PollGhost { pub sleeps: nat, pub polls: nat }
#[verifier::external_body]
pub proof fn ghost_polled(tracked p: &mut PollGhost)
    ensures *final(p) == (PollGhost { polls: old(p).polls + 1, ..*old(p) })
{ unimplemented!() }
pub mod tokio {
    #[verifier::external_body]
    pub fn spawn<T>(t: T) -> (r: super::JoinHandle<T>) { unimplemented!() }
    pub mod time {
    use super::super::*;
    #[verifier::external_body]
    pub fn sleep(d: Duration, Tracked(p): Tracked<&mut PollGhost>)
        requires
            dur_ns(d) <= crate::block_watcher::POLL_INTERVAL__ns(),   // #no_wait_longer_than_the_poll_interval [C20,C04]
            old(p).sleeps == old(p).polls,                            // #every_wakeup_is_followed_by_a_poll [C20,C04]
        ensures *final(p) == (PollGhost { sleeps: old(p).sleeps + 1, ..*old(p) }),
    { unimplemented!() }
    }
}
impl mpsc::Receiver<()> {
    // the shutdown signal: may arrive at any time
    #[verifier::external_body]
    pub fn recv(&mut self) -> (r: Option<()>) { unimplemented!() }
}

// start(): the polling task is handed to the scheduler.  Under E2 the argument of tokio::spawn has
// been evaluated (the contract of poll_forever: the height never decreases); spawning itself is
// not under contract.
// `id`: ghost identity (a struct of PhantomData only would be single-valued: any two values provably equal)
pub struct JoinHandle<T> { pub p: core::marker::PhantomData<T>, pub id: Ghost<int> }
pub struct TryLockError { pub _p: u8 }
