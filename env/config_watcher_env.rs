// ---- env/config_watcher_env.rs: BlockWatcher as seen by main() (src/main.rs) ----------------------
// `started`: start() has applied the startup height query to the shared cell and spawned the poller
// (that is what unit height proves about the real start()); `id`: ghost identity of the watcher.
pub mod block_watcher {
    use super::*;
    pub trait BlockProvider {}
    pub struct JoinHandle { pub _p: u8 }
    pub struct BlockWatcher { pub id: Ghost<int>, pub started: Ghost<bool> }
    impl BlockProvider for BlockWatcher {}
    impl BlockWatcher {
        #[verifier::external_body]
        pub fn new(rpc: Arc<Rpc>) -> (r: Self) ensures !r.started@ { unimplemented!() }
        #[verifier::external_body]
        pub fn start(&mut self, receiver: mpsc::Receiver<()>) -> (r: ::std::result::Result<JoinHandle, AnyErr>)
            ensures r is Ok ==> (final(self).started@ && final(self).id == old(self).id), r is Err ==> *final(self) == *old(self),
        { unimplemented!() }
    }
}
