// ---- env/codec_env.rs: bytes::BytesMut, tokio_util codec traits, slice iteration (assumed) -------
pub mod io {
    pub struct Error { pub p: u8 }
    pub enum ErrorKind { InvalidData, Other }
    impl Error {
        // std: io::Error::new never fails; what the error says plays no role in any contract
        #[verifier::external_body]
        pub fn new(kind: ErrorKind, msg: &str) -> (r: Error) { unimplemented!() }
    }
}
impl ::std::convert::From<io::Error> for AnyErr { #[verifier::external_body] fn from(e: io::Error) -> AnyErr { unimplemented!() } }
impl vstd::std_specs::convert::FromSpecImpl<io::Error> for AnyErr {
    open spec fn obeys_from_spec() -> bool { false }
    open spec fn from_spec(v: io::Error) -> Self { arbitrary() }
}
pub type Error = AnyErr;
pub uninterp spec fn utf8_spec(b: Seq<u8>) -> Option<Seq<char>>;
#[verifier::external_type_specification]
#[verifier::external_body]
pub struct ExUtf8Error(::core::str::Utf8Error);
// std: from_utf8 succeeds exactly on the byte strings that are UTF-8, with the text they encode
// (utf8_spec is uninterpreted: which strings those are plays no role). ASSUMED.
pub assume_specification<'a>[ str::from_utf8 ](b: &'a [u8]) -> (r: ::std::result::Result<&'a str, ::core::str::Utf8Error>)
    ensures match r { Ok(s) => utf8_spec(b@) == Some(s@), Err(_) => utf8_spec(b@) is None };
pub uninterp spec fn str_bytes(s: Seq<char>) -> Seq<u8>;

pub struct BytesMut { pub data: Vec<u8> }
// a buffer never holds more than isize::MAX bytes (Rust allocation limit)
pub broadcast axiom fn axiom_bytesmut_len(b: BytesMut)
    ensures #[trigger] b.data@.len() <= isize::MAX;
/// env iterator types with std semantics of `iter().zip(iter().skip(1)).position(pred)`:
/// the i-th pair is (data[i], data[i+1]); position returns the FIRST index whose pair satisfies
/// the predicate, None if none does (trusted model of std iteration).
pub struct BmIter<'a> { pub d: &'a Vec<u8> }
pub struct BmSkip<'a> { pub d: &'a Vec<u8>, pub n: usize }
pub struct BmZip<'a> { pub a: &'a Vec<u8>, pub b: &'a Vec<u8>, pub n: usize }
impl BytesMut {
    #[verifier::external_body]
    pub fn iter(&self) -> (r: BmIter<'_>) ensures r.d@ == self.data@ { unimplemented!() }
    #[verifier::external_body]
    pub fn split_to(&mut self, at: usize) -> (r: BytesMut)
        requires at <= old(self).data@.len(),      // bytes: panics otherwise
        ensures r.data@ == old(self).data@.take(at as int), final(self).data@ == old(self).data@.skip(at as int)
    { unimplemented!() }
    #[verifier::external_body]
    pub fn len(&self) -> (r: usize) ensures r == self.data@.len() { unimplemented!() }
    #[verifier::external_body]
    pub fn reserve(&mut self, additional: usize) ensures final(self).data@ == old(self).data@ { unimplemented!() }
    #[verifier::external_body]
    pub fn put(&mut self, src: &[u8]) ensures final(self).data@ == old(self).data@ + src@ { unimplemented!() }
    #[verifier::external_body]
    pub fn put_u8(&mut self, b: u8) ensures final(self).data@ == old(self).data@.push(b) { unimplemented!() }
}
impl<'a> BmIter<'a> {
    #[verifier::external_body]
    pub fn skip(self, n: usize) -> (r: BmSkip<'a>) ensures r.d@ == self.d@, r.n == n { unimplemented!() }
    #[verifier::external_body]
    pub fn zip(self, o: BmSkip<'a>) -> (r: BmZip<'a>) ensures r.a@ == self.d@, r.b@ == o.d@, r.n == o.n { unimplemented!() }
}
impl<'a> BmZip<'a> {
    pub open spec fn npairs(&self) -> int {
        let m = self.b@.len() - self.n as int;
        if m < 0 { 0 } else if m < self.a@.len() { m } else { self.a@.len() as int }
    }
    #[verifier::external_body]
    pub fn position<P: FnMut((&'a u8, &'a u8)) -> bool>(&mut self, pred: P) -> (r: Option<usize>)
        requires forall|x: (&u8, &u8)| call_requires(pred, (x,)),
        ensures match r {
            Some(i) => 0 <= i < old(self).npairs()
                && call_ensures(pred, ((&old(self).a@[i as int], &old(self).b@[i as int + old(self).n as int]),), true)
                && forall|j: int| 0 <= j < i ==> call_ensures(pred, ((&(#[trigger] old(self).a@[j]), &old(self).b@[j + old(self).n as int]),), false),
            None => forall|j: int| 0 <= j < old(self).npairs() ==> call_ensures(pred, ((&(#[trigger] old(self).a@[j]), &old(self).b@[j + old(self).n as int]),), false),
        }
    { unimplemented!() }
}
// bytes: BytesMut derefs to the slice of its contents
impl core::ops::Deref for BytesMut {
    type Target = [u8];
    #[verifier::external_body]
    fn deref(&self) -> (r: &[u8]) ensures r@ == self.data@ { unimplemented!() }
}
impl vstd::std_specs::core::IndexSpecImpl<core::ops::RangeTo<usize>> for BytesMut {
    // slice indexing panics when the range end is beyond the length
    open spec fn index_req(&self, r: &core::ops::RangeTo<usize>) -> bool { r.end <= self.data@.len() }
}
impl core::ops::Index<core::ops::RangeTo<usize>> for BytesMut {
    type Output = [u8];
    #[verifier::external_body]
    fn index(&self, r: core::ops::RangeTo<usize>) -> (o: &[u8])
        ensures o@ == self.data@.take(r.end as int)
    { unimplemented!() }
}
pub trait Decoder {
    type Item;
    type Error;
    fn decode(&mut self, buf: &mut BytesMut) -> ::std::result::Result<Option<Self::Item>, Self::Error>;
}
pub trait Encoder<T> {
    type Error;
    fn encode(&mut self, item: T, buf: &mut BytesMut) -> ::std::result::Result<(), Self::Error>;
}

// a str never holds more than isize::MAX bytes (Rust allocation limit); spec_bytes is vstd's UTF-8 encoding
pub broadcast axiom fn axiom_str_len(s: &str)
    ensures #[trigger] s.spec_bytes().len() <= isize::MAX;

// ---- serde_json as seen by JsonCodec / JsonRpcCodec (assumed): parsing a text and converting a
// value into a typed message are uninterpreted partial functions; `to_string` is the compact
// rendering (one document, no blank line inside it)
pub mod serde_json {
    use super::*;
    pub mod value { pub use super::Value; }
    pub struct Value { pub _p: u8 }
    pub struct Error { pub _p: u8 }
    pub uninterp spec fn json_parse(s: Seq<char>) -> Option<Value>;
    pub uninterp spec fn json_text(v: Value) -> Seq<char>;
    impl Value {
        /// std::str::FromStr for serde_json::Value
        #[verifier::external_body]
        pub fn from_str(s: &str) -> (r: ::std::result::Result<Value, Error>)
            ensures match json_parse(s@) { Some(v) => r is Ok && r->Ok_0 == v, None => r is Err }
        { unimplemented!() }
        #[verifier::external_body]
        pub fn to_string(&self) -> (r: String) ensures r@ == json_text(*self) { unimplemented!() }
    }
    pub uninterp spec fn from_value_spec<T>(v: Value) -> Option<T>;
    #[verifier::external_body]
    pub fn from_value<T>(v: Value) -> (r: ::std::result::Result<T, Error>)
        ensures match from_value_spec::<T>(v) { Some(t) => r is Ok && r->Ok_0 == t, None => r is Err }
    { unimplemented!() }
}
impl ::std::convert::From<serde_json::Error> for AnyErr { #[verifier::external_body] fn from(e: serde_json::Error) -> AnyErr { unimplemented!() } }
impl vstd::std_specs::convert::FromSpecImpl<serde_json::Error> for AnyErr {
    open spec fn obeys_from_spec() -> bool { false }
    open spec fn from_spec(v: serde_json::Error) -> Self { arbitrary() }
}
// the typed messages of src/cln_plugin/messages.rs are opaque here (what JsonRpc::deserialize makes
// of a value is the uninterpreted from_value_spec)
pub mod messages_env {
    pub struct Notification { pub _p: u8 }
    pub struct Request { pub _p: u8 }
    pub struct JsonRpc<N, R> { pub _n: Option<N>, pub _r: Option<R>, pub _p: u8 }
}
pub use messages_env::{JsonRpc, Notification, Request};
pub use serde_json::Value;
impl serde_json::Value { #[verifier::external_body] pub fn default() -> (r: serde_json::Value) { unimplemented!() } }
