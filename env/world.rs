// ---- env/world.rs: ghost world for ONE payment hash (DESIGN.md section 6) ---------------------
// Threaded through the real functions as `Tracked(w): Tracked<&mut World>` (edit E4).  It is
// specification state only: Verus erases it.

pub type Key = Seq<Seq<char>>;

/// What the durable state record of the hash says (decoded value of key .../<hash>/state).
pub enum StoreAbs {
    Absent,
    Free,
    Pending { attempt: Seq<char>, time: u64 },
    Succeeded { preimage: Seq<u8> },
    Garbage,
}

/// Abstract response handed to the held HTLCs.
pub enum RespAbs { Continue, Fail { msg: Seq<u8> }, Resolve { key: Seq<u8> } }

pub struct World {
    // ---- durable: the node's datastore, all keys: key -> (string value, generation)
    pub ds: Map<Key, (Seq<char>, u64)>,
    // ---- node: outgoing sendpay parts for `hash`
    pub pending: nat,                   // parts still pending
    pub complete: Option<Seq<u8>>,      // preimage of a completed part, if any
    pub pay_running: bool,              // a `pay` command issued by us is still running
    // ---- process
    pub released: bool,                 // our resolve() removed the table entry (other lifecycles may run)
    pub resolved: Option<RespAbs>,      // the one answer our resolve() gave
    pub received: int,                  // sum of amounts of HTLCs held for `hash`
    pub min_expiry: int,                // min absolute expiry of held HTLCs (u32::MAX if none)
    pub received_read: int,             // `received` as of our last lock() of the table
    pub min_expiry_read: int,           // `min_expiry` as of our last lock() of the table
    pub height_at_init: int,            // best height known when we last locked the table (payment initiation)
    pub height: int,                    // best height known to the block watcher
    pub height_read: int,               // last value returned to us by current_height()
    pub last_polled: int,               // blockheight of the last successful getinfo reply
    pub height_told: int,               // max of all heights the block watcher has been told so far
    pub now_ns: nat,                    // monotone clock
    pub wait_started_ns: nat,           // when the stored state was read (start of the MPP wait)
    pub slept_ns: nat,                  // duration of the last completed sleep()
    pub attempted: bool,                // add_payment_attempt was called by us (an outgoing attempt may exist)
    pub fail_sent: bool,                // a value was put in the fail_requested channel (by handle_htlc)
    pub fail_received: Option<RespAbs>, // the failure we took out of the fail_requested channel, if any
    pub fresh_start: bool,              // the stored state we read at the start was Free: no earlier attempt on record
    pub lock_held: bool,                // the global table mutex is held by us
    pub faulted: bool,                  // some RPC faulted (transport error: effect unknown)
    pub rpc_under_lock: bool,           // an RPC was issued while lock_held (C14: must stay false)
    // ---- constants of this lifecycle
    pub hash: Hash,                     // trampoline.invoice.payment_hash()
    pub amount: u64,                    // trampoline.amount_msat
    pub inv_amount: Option<u64>,        // the invoice's own amount, if it has one
    pub bolt11: Seq<char>,              // trampoline.bolt11
    pub pol_base: u32, pub pol_ppm: u32, pub pol_delta: u16,   // trampoline.routing_policy
    pub cltv_delta: u16,                // params.cltv_delta (safety margin)
    pub mpp_timeout_ns: nat,            // params.mpp_timeout
}

pub open spec fn same_consts(a: World, b: World) -> bool {
    &&& b.hash == a.hash && b.amount == a.amount && b.inv_amount == a.inv_amount && b.bolt11 == a.bolt11
    &&& b.pol_base == a.pol_base && b.pol_ppm == a.pol_ppm && b.pol_delta == a.pol_delta
    &&& b.cltv_delta == a.cltv_delta && b.mpp_timeout_ns == a.mpp_timeout_ns
}
pub open spec fn max0(x: int) -> int { if x > 0 { x } else { 0 } }

// Ghost history-variable updates (specification state only).
#[verifier::external_body]
pub proof fn ghost_unlock(tracked w: &mut World)
    ensures *final(w) == (World { lock_held: false, ..*old(w) })
{ unimplemented!() }
#[verifier::external_body]
pub proof fn ghost_set_fresh(tracked w: &mut World, b: bool)
    ensures *final(w) == (World { fresh_start: b, ..*old(w) })
{ unimplemented!() }
#[verifier::external_body]
pub proof fn ghost_told(tracked w: &mut World, n: u32)
    ensures *final(w) == (World { height_told: if n as int > old(w).height_told { n as int } else { old(w).height_told }, ..*old(w) })
{ unimplemented!() }
#[verifier::external_body]
pub proof fn ghost_set_resolved(tracked w: &mut World, v: RespAbs)
    ensures *final(w) == (World { resolved: Some(v), ..*old(w) })
{ unimplemented!() }

pub open spec fn live(w: World) -> bool { w.pending > 0 || w.complete is Some }

/// The SHA-256 preimage of a payment hash.  Assumptions (listed): SHA-256 is collision free, and
/// the node reports `payment_preimage` only for parts whose preimage it verified against the hash.
pub uninterp spec fn preimage_of(h: Hash) -> Seq<u8>;
pub open spec fn node_ok(w: World) -> bool { w.complete is Some ==> w.complete->0 == preimage_of(w.hash) }

pub uninterp spec fn de_state(s: Seq<char>) -> StoreAbs;

pub open spec fn state_key_spec(h: Hash) -> Key {
    seq![string_view("trampoline"), string_view("payments"), h.hex_spec(), string_view("state")]
}
pub open spec fn attempt_key_spec(h: Hash, id: Seq<char>) -> Key {
    seq![string_view("trampoline"), string_view("payments"), h.hex_spec(), string_view("attempts"), id]
}
pub open spec fn string_view(s: &str) -> Seq<char> { s@ }
pub open spec fn is_hash_key(k: Key, h: Hash) -> bool {
    k.len() >= 4 && k[0] == string_view("trampoline") && k[1] == string_view("payments") && k[2] == h.hex_spec()
}

pub open spec fn store_of(w: World) -> StoreAbs {
    if w.ds.contains_key(state_key_spec(w.hash)) { de_state(w.ds[state_key_spec(w.hash)].0) } else { StoreAbs::Absent }
}
pub open spec fn store_gen(w: World) -> int {
    if w.ds.contains_key(state_key_spec(w.hash)) { w.ds[state_key_spec(w.hash)].1 as int } else { -1 }
}

/// Durable invariant (C08): if anything is pending or complete on the node, the record says
/// in-flight or succeeded; a succeeded record holds the preimage the node reported.
pub open spec fn inv(w: World) -> bool {
    &&& (live(w) || w.pay_running) ==> (store_of(w) is Pending || store_of(w) is Succeeded)
    &&& store_of(w) is Succeeded ==> store_of(w)->preimage == preimage_of(w.hash)
    &&& node_ok(w)
}

pub open spec fn ds_hash_unchanged(a: World, b: World) -> bool {
    forall|k: Key| #![trigger b.ds.contains_key(k)] #![trigger b.ds[k]]
        is_hash_key(k, a.hash) ==> (b.ds.contains_key(k) == a.ds.contains_key(k) && b.ds[k] == a.ds[k])
}

/// What the node, the clock, the chain and the *other* tasks of the plugin may do between two
/// of our atomic steps -- everything except the datastore and the fault flag.
pub open spec fn rely_env(a: World, b: World) -> bool {
    // constants
    &&& same_consts(a, b)
    // ours alone
    &&& b.released == a.released && b.resolved == a.resolved && b.lock_held == a.lock_held && b.fail_received == a.fail_received && b.fresh_start == a.fresh_start
    &&& b.received_read == a.received_read && b.min_expiry_read == a.min_expiry_read && b.height_at_init == a.height_at_init
    &&& b.height_read == a.height_read && b.height_told >= a.height_told && b.last_polled == a.last_polled && b.wait_started_ns == a.wait_started_ns
    &&& b.slept_ns == a.slept_ns && b.rpc_under_lock == a.rpc_under_lock
    &&& b.pay_running == a.pay_running && b.attempted == a.attempted
    // monotone environment
    &&& b.now_ns >= a.now_ns && b.height >= a.height
    // node: a completed part stays completed with the same preimage
    &&& (a.complete is Some ==> b.complete == a.complete)
    &&& node_ok(b)
    &&& (!a.released ==> {
            // Exclusive phase: we are the only lifecycle of `hash`:
            // parts only resolve, unless our own pay command is running
            &&& (!a.pay_running ==> b.pending <= a.pending)
            &&& ((!live(a) && !a.pay_running) ==> !live(b))
            // handle_htlc may add HTLCs and request failure (guarantees proved in units paystate/handle)
            &&& b.received >= a.received && b.min_expiry <= a.min_expiry
            &&& (a.fail_sent ==> b.fail_sent)
        })
}

pub open spec fn rely(a: World, b: World) -> bool {
    &&& rely_env(a, b)
    &&& b.faulted == a.faulted
    &&& if !a.released {
            // Exclusive phase: nobody else writes keys of `hash`.
            ds_hash_unchanged(a, b)
        } else {
            // Released phase: another lifecycle of `hash` may run. It keeps `inv`, every write of
            // the state key bumps its generation (CLN), and it starts parts only after its own
            // Pending write (its C08 obligation).
            &&& (inv(a) ==> inv(b))
            &&& store_gen(b) >= store_gen(a)
            &&& (store_gen(b) == store_gen(a) ==> (store_of(b) == store_of(a) && (!live(a) ==> !live(b))))
        }
}

pub proof fn lemma_rely_refl(a: World)
    requires node_ok(a)
    ensures rely(a, a)
{}

pub proof fn lemma_rely_trans(a: World, b: World, c: World)
    requires rely(a, b), rely(b, c)
    ensures rely(a, c)
{
    if !a.released {
        assert forall|k: Key| is_hash_key(k, a.hash) implies (#[trigger] c.ds.contains_key(k) == a.ds.contains_key(k) && c.ds[k] == a.ds[k]) by {
            assert(b.ds.contains_key(k) == a.ds.contains_key(k));
            assert(c.ds.contains_key(k) == b.ds.contains_key(k));
        }
    }
}

/// Rely steps preserve the durable invariant (one half of the crash-point argument: every
/// prefix of every execution satisfies `inv`; the other half are the `step_ok` preconditions
/// of the atomic RPC steps).
pub proof fn lemma_rely_preserves_inv(a: World, b: World)
    requires rely(a, b), inv(a)
    ensures inv(b)
{
    if !a.released {
        assert(b.ds.contains_key(state_key_spec(a.hash)) == a.ds.contains_key(state_key_spec(a.hash)));
        assert(b.ds[state_key_spec(a.hash)] == a.ds[state_key_spec(a.hash)]);
        assert(store_of(b) == store_of(a));
    }
}

pub broadcast proof fn lemma_unchanged_store(a: World, b: World)
    requires #[trigger] ds_hash_unchanged(a, b), a.hash == b.hash
    ensures store_of(b) == store_of(a), store_gen(b) == store_gen(a)
{
    let k = state_key_spec(a.hash);
    assert(is_hash_key(k, a.hash));
    assert(b.ds.contains_key(k) == a.ds.contains_key(k));
    assert(b.ds[k] == a.ds[k]);
}
pub broadcast proof fn lemma_rely_store(a: World, b: World)
    requires #[trigger] rely(a, b), !a.released
    ensures store_of(b) == store_of(a), store_gen(b) == store_gen(a)
{
    lemma_unchanged_store(a, b);
}

pub broadcast proof fn lemma_unchanged_trans(a: World, b: World, c: World)
    requires #[trigger] ds_hash_unchanged(a, b), #[trigger] ds_hash_unchanged(b, c), a.hash == b.hash
    ensures ds_hash_unchanged(a, c)
{
    assert forall|k: Key| is_hash_key(k, a.hash) implies (#[trigger] c.ds.contains_key(k) == a.ds.contains_key(k) && c.ds[k] == a.ds[k]) by {
        assert(b.ds.contains_key(k) == a.ds.contains_key(k));
        assert(c.ds.contains_key(k) == b.ds.contains_key(k));
    }
}
