// ---- env/initopts_env.rs: serde_json values as seen by Builder::handle_init (assumed) ------------
pub mod serde_json {
    use super::*;
    /// a JSON number; as_i64 is Some exactly when the number is an integer that fits in i64
    pub struct Number { pub _p: u8 }
    impl Number {
        pub uninterp spec fn as_i64_spec(&self) -> Option<i64>;
        #[verifier::external_body]
        pub fn as_i64(&self) -> (r: Option<i64>) ensures r == self.as_i64_spec() { unimplemented!() }
        /// as_u64 is Some exactly when the number is a non-negative integer that fits in u64
        pub uninterp spec fn as_u64_spec(&self) -> Option<u64>;
        #[verifier::external_body]
        pub fn as_u64(&self) -> (r: Option<u64>)
            ensures r == self.as_u64_spec(),
                (self.as_i64_spec() is Some && self.as_i64_spec()->0 >= 0) ==> r == Some(self.as_i64_spec()->0 as u64),
                (self.as_i64_spec() is Some && self.as_i64_spec()->0 < 0) ==> r is None,
        { unimplemented!() }
    }
    pub struct Opaque { pub _p: u8 }
    pub enum Value { Null, Bool(bool), Number(Number), String(String), Array(Opaque), Object(Opaque) }
}
// env mirror of Builder for the slice handle_init#store: the real field `option_values` with its real type
// `id`: ghost identity (a struct of PhantomData only would be single-valued: any two values provably equal)
pub struct HashMap<K, V> { pub _p: core::marker::PhantomData<(K, V)>, pub id: Ghost<int> }
impl<V> HashMap<String, V> {
    pub uninterp spec fn view(&self) -> Map<Seq<char>, V>;
    #[verifier::external_body]
    pub fn insert(&mut self, k: String, v: V) -> (r: Option<V>)
        ensures final(self)@ == old(self)@.insert(k@, v),
    { unimplemented!() }
}
pub struct Builder { pub option_values: HashMap<String, Option<options::Value>> }
pub mod str_ax {
    use super::*;
    /// ASSUMED: `to_string()` of a `String` is a copy of it (vstd leaves Display of String uninterpreted)
    pub broadcast axiom fn axiom_string_to_string(s: &String, r: String)
        ensures #[trigger] vstd::string::to_string_from_display_ensures::<String>(s, r) ==> r@ == s@;
}
broadcast use crate::str_ax::axiom_string_to_string;
// E17 target: unwrap()/expect() where a panic is the specified refusal -- same value on Some / Ok, no
// normal return otherwise (so the postcondition may say the input was Some / Ok)
pub trait UnwrapOrRefuse<T>: Sized { fn unwrap_or_refuse(self) -> (r: T); }
impl<T> UnwrapOrRefuse<T> for Option<T> {
    #[verifier::external_body]
    fn unwrap_or_refuse(self) -> (r: T) ensures self is Some, r == self->0 { unimplemented!() }
}
impl<T, E> UnwrapOrRefuse<T> for ::std::result::Result<T, E> {
    #[verifier::external_body]
    fn unwrap_or_refuse(self) -> (r: T) ensures self is Ok, r == self->Ok_0 { unimplemented!() }
}
// env mirrors for the slice configure#handover (the tail expression of Builder::configure that builds the
// ConfiguredPlugin): the REAL field names; `option_values` with its real type, every other field with a
// type parameter (the slice only moves them), so each field can only be filled from a value of its own kind
impl<K, V> HashMap<K, V> {
    #[verifier::external_body]
    pub fn new() -> (r: Self) { unimplemented!() }
}
pub struct BuilderHandover<SC, NT, OPTS> {
    pub setconfig_callback: SC, pub notifications: NT, pub options: OPTS,
    pub option_values: HashMap<String, Option<options::Value>>,
}
pub struct ConfiguredPlugin<ID, IN, OUT, RM, SC, NT, SUBS, WS, OPTS, CFG> {
    pub init_id: ID, pub input: IN, pub output: OUT, pub rpcmethods: RM, pub setconfig_callback: SC,
    pub notifications: NT, pub subscriptions: SUBS, pub wildcard_subscription: WS, pub options: OPTS,
    pub option_values: HashMap<String, Option<options::Value>>, pub configuration: CFG,
    pub hooks: HashMap<String, u8>,
}
