// ---- env/initopts_env.rs: serde_json values as seen by Builder::handle_init (assumed) ------------
pub mod serde_json {
    use super::*;
    /// a JSON number; as_i64 is Some exactly when the number is an integer that fits in i64
    pub struct Number { pub _p: u8 }
    impl Number {
        pub uninterp spec fn as_i64_spec(&self) -> Option<i64>;
        #[verifier::external_body]
        pub fn as_i64(&self) -> (r: Option<i64>) ensures r == self.as_i64_spec() { unimplemented!() }
    }
    pub struct Opaque { pub _p: u8 }
    pub enum Value { Null, Bool(bool), Number(Number), String(String), Array(Opaque), Object(Opaque) }
}
