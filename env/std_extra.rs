// ---- env/std_extra.rs: specs of small std functions that vstd does not cover (assumed, each is
// the documented behaviour of the std function) ------------------------------------------------
// std: drop(x) only ends the life of x (an explicit drop of a lock guard is modelled by E7: ghost_unlock right after it)
pub assume_specification<T>[::core::mem::drop](x: T);
pub assume_specification<T>[::std::option::Option::<T>::or](a: Option<T>, b: Option<T>) -> (r: Option<T>)
    ensures r == (match a { Some(x) => Some(x), None => b });
pub assume_specification<T, P: FnOnce(&T) -> bool>[::std::option::Option::<T>::filter](o: Option<T>, p: P) -> (r: Option<T>)
    where P: core::marker::Destruct, T: core::marker::Destruct
    requires o is Some ==> call_requires(p, (&o->0,)),
    ensures o is None ==> r is None,
        o is Some ==> ((r == o && call_ensures(p, (&o->0,), true)) || (r is None && call_ensures(p, (&o->0,), false)));
pub assume_specification<T, U>[::std::option::Option::<T>::and](a: Option<T>, b: Option<U>) -> (r: Option<U>)
    ensures r == (match a { Some(_) => b, None => None::<U> });
pub assume_specification[u64::abs_diff](a: u64, b: u64) -> (r: u64)
    ensures r as int == (if a >= b { a - b } else { b - a });
pub assume_specification[u32::abs_diff](a: u32, b: u32) -> (r: u32)
    ensures r as int == (if a >= b { a - b } else { b - a });
pub assume_specification[i64::unsigned_abs](a: i64) -> (r: u64)
    ensures r as int == (if a >= 0 { a as int } else { -(a as int) });
pub assume_specification<T>[bool::then_some](b: bool, t: T) -> (r: Option<T>)
    ensures r == (if b { Some(t) } else { None::<T> });
pub assume_specification<T, U, F: FnOnce(T) -> U>[::std::option::Option::<T>::map_or](o: Option<T>, d: U, f: F) -> (r: U)
    requires o is Some ==> call_requires(f, (o->0,)),
    ensures match o { Some(t) => call_ensures(f, (t,), r), None => r == d };
// Err => T::default(), which is not specified here (sound, weak)
pub assume_specification<T: ::std::default::Default, E>[::std::result::Result::<T, E>::unwrap_or_default](a: ::std::result::Result<T, E>) -> (r: T)
    ensures a is Ok ==> r == a->Ok_0;
// ---- more of std's Option / Result combinators (std semantics; closures through call_requires / call_ensures)
pub assume_specification<T, F: FnOnce(T) -> bool>[::std::option::Option::<T>::is_some_and](o: Option<T>, f: F) -> (r: bool)
    requires o is Some ==> call_requires(f, (o->0,)),
    ensures match o { Some(t) => call_ensures(f, (t,), r), None => !r };
pub assume_specification<T, U, D: FnOnce() -> U, F: FnOnce(T) -> U>[::std::option::Option::<T>::map_or_else](o: Option<T>, d: D, f: F) -> (r: U)
    requires o is Some ==> call_requires(f, (o->0,)), o is None ==> call_requires(d, ()),
    ensures match o { Some(t) => call_ensures(f, (t,), r), None => call_ensures(d, (), r) };
pub assume_specification<T, F: FnOnce() -> Option<T>>[::std::option::Option::<T>::or_else](o: Option<T>, f: F) -> (r: Option<T>)
    requires o is None ==> call_requires(f, ()),
    ensures match o { Some(t) => r == Some(t), None => call_ensures(f, (), r) };
pub assume_specification<T>[::std::option::Option::<T>::xor](a: Option<T>, b: Option<T>) -> (r: Option<T>)
    ensures r == (match (a, b) { (Some(x), None) => Some(x), (None, Some(y)) => Some(y), _ => None });
pub assume_specification<T, E, U, F: FnOnce(T) -> ::std::result::Result<U, E>>[::std::result::Result::<T, E>::and_then](a: ::std::result::Result<T, E>, f: F) -> (r: ::std::result::Result<U, E>)
    requires a is Ok ==> call_requires(f, (a->Ok_0,)),
    ensures match a { Ok(t) => call_ensures(f, (t,), r), Err(e) => r == ::std::result::Result::<U, E>::Err(e) };
pub assume_specification<T, E, G, O: FnOnce(E) -> ::std::result::Result<T, G>>[::std::result::Result::<T, E>::or_else](a: ::std::result::Result<T, E>, o: O) -> (r: ::std::result::Result<T, G>)
    requires a is Err ==> call_requires(o, (a->Err_0,)),
    ensures match a { Ok(t) => r == ::std::result::Result::<T, G>::Ok(t), Err(e) => call_ensures(o, (e,), r) };
pub assume_specification<T, E, F: FnOnce(E) -> T>[::std::result::Result::<T, E>::unwrap_or_else](a: ::std::result::Result<T, E>, f: F) -> (r: T)
    requires a is Err ==> call_requires(f, (a->Err_0,)),
    ensures match a { Ok(t) => r == t, Err(e) => call_ensures(f, (e,), r) };
pub assume_specification<T, E, F: FnOnce(T) -> bool>[::std::result::Result::<T, E>::is_ok_and](a: ::std::result::Result<T, E>, f: F) -> (r: bool)
    requires a is Ok ==> call_requires(f, (a->Ok_0,)),
    ensures match a { Ok(t) => call_ensures(f, (t,), r), Err(_) => !r };
// ASCII-case-insensitive comparison of byte strings: equal strings compare equal, strings of different length do not
pub assume_specification[<[u8]>::eq_ignore_ascii_case](a: &[u8], b: &[u8]) -> (r: bool)
    ensures a@ == b@ ==> r, r ==> a@.len() == b@.len();
