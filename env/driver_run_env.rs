// ---- env/driver_run_env.rs: what PluginDriver::run needs (assumed) -----------------------------
// Ghost wire: `taken` = replies run() has taken out of the reply channel, `written` = replies it has
// handed to the stdout writer.  run() must keep them equal between two select! rounds: every reply
// taken is written, once, in order.
pub struct Wire { pub taken: Seq<Value>, pub written: Seq<Value> }
pub mod serde_json { pub struct Value { pub _p: u8 } }
pub use serde_json::Value;
pub type Error = AnyErr;
pub trait AsyncReadExt {}
pub trait AsyncWriteExt {}
pub struct JsonRpcCodec { pub _p: u8 }
pub struct JsonCodec { pub _p: u8 }
/// tokio_util FramedRead: the underlying reader plus the bytes already read from it but not yet
/// decoded (`buffered`); into_inner() hands back the reader WITHOUT them
pub struct FramedRead<I, C> { pub io: I, pub buffered: Seq<u8>, pub p: core::marker::PhantomData<C> }
impl<I, C> FramedRead<I, C> {
    #[verifier::external_body]
    pub fn into_inner(self) -> (r: I) ensures r == self.io { unimplemented!() }
    #[verifier::external_body]
    pub fn new(io: I, codec: C) -> (r: Self) ensures r.io == io, r.buffered == Seq::<u8>::empty() { unimplemented!() }
    #[verifier::external_body]
    pub fn with_capacity(io: I, codec: C, n: usize) -> (r: Self) ensures r.io == io, r.buffered == Seq::<u8>::empty() { unimplemented!() }
}
impl JsonRpcCodec { #[verifier::external_body] pub fn default() -> (r: Self) { unimplemented!() } }
/// env mirror of ConfiguredPlugin with the real field names used by the slice of start()
pub struct ConfiguredPlugin<I, O> { pub input: FramedRead<I, JsonRpcCodec>, pub output: Arc<Mutex<FramedWrite<O, JsonCodec>>> }
// `id`: ghost identity (a struct of PhantomData only would be single-valued: any two values provably equal)
pub struct FramedWrite<O, C> { pub p: core::marker::PhantomData<(O, C)>, pub id: Ghost<int> }
// `id`: ghost identity (a struct of PhantomData only would be single-valued: any two values provably equal)
pub struct Mutex<T> { pub p: core::marker::PhantomData<T>, pub id: Ghost<int> }
// `id`: ghost identity (a struct of PhantomData only would be single-valued: any two values provably equal)
pub struct WriterGuard<'a, O> { pub p: core::marker::PhantomData<&'a O>, pub id: Ghost<int> }
impl<O> Mutex<FramedWrite<O, JsonCodec>> {
    #[verifier::external_body]
    pub fn lock(&self) -> (g: WriterGuard<'_, O>) { unimplemented!() }
}
impl<'a, O> WriterGuard<'a, O> {
    /// SinkExt::send: encodes the value and flushes it to stdout; Ok means it was written
    #[verifier::external_body]
    pub fn send(&mut self, v: Value, Tracked(t): Tracked<&mut Wire>) -> (r: ::std::result::Result<(), Error>)
        ensures r is Ok ==> *final(t) == (Wire { written: old(t).written.push(v), ..*old(t) }),
            r is Err ==> *final(t) == *old(t),
    { unimplemented!() }
}
pub mod tokio { pub mod sync { pub mod mpsc {
    use super::super::super::*;
    // `id`: ghost identity (a struct of PhantomData only would be single-valued: any two values provably equal)
    pub struct Receiver<T> { pub p: core::marker::PhantomData<T>, pub id: Ghost<int> }
    impl Receiver<Value> {
        /// takes the next queued reply out of the channel (None: all senders are gone)
        #[verifier::external_body]
        pub fn recv(&mut self, Tracked(t): Tracked<&mut Wire>) -> (r: Option<Value>)
            ensures r is Some ==> *final(t) == (Wire { taken: old(t).taken.push(r->0), ..*old(t) }),
                r is None ==> *final(t) == *old(t),
        { unimplemented!() }
    }
} } }
impl Context<Value> for Option<Value> {
    #[verifier::external_body]
    fn context(self, c: &'static str) -> (r: anyhow::Result<Value>)
        ensures self is Some ==> r == Ok::<Value, AnyErr>(self->0), self is None ==> r is Err
    { unimplemented!() }
}
// env mirrors with the real field name used by run(): `self.plugin`
pub struct Plugin<S> { pub state: S }
pub struct PluginDriver<S> { pub plugin: Plugin<S> }
