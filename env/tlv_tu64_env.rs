// ---- env/tlv_tu64_env.rs: what ProtoBuf::get_tu64 (src/tlv.rs) needs beyond env/bytes.rs (assumed) --
// `u64::from_be_bytes`: Verus cannot attach an assume_specification to it (its parameter type names an
// anonymous constant), so the path `u64::from_be_bytes` is resolved to this module of the same name
// (a module shadows the primitive type in paths only; `u64` in type position stays the primitive).
// src/tlv.rs uses no other `u64::` path (a unit that does would not compile: exit 2).
pub mod u64 {
    use super::*;
    #[verifier::external_body]
    pub fn from_be_bytes(b: [u8; 8]) -> (r: u64) ensures r as nat == be_val(b@) { unimplemented!() }
}
/// E16 target: `A[i..].copy_from_slice(S)` on a local array A: the range index panics when i > N,
/// copy_from_slice panics unless the lengths are equal
#[verifier::external_body]
pub fn copy_into_tail<const N: usize>(a: &mut [u8; N], i: usize, s: &[u8])
    requires i <= N, s@.len() == N - i,
    ensures final(a)@ == old(a)@.take(i as int) + s@,
{ unimplemented!() }
pub proof fn lemma_be_zeros(z: Seq<u8>)
    requires forall|i: int| 0 <= i < z.len() ==> z[i] == 0,
    ensures be_val(z) == 0
    decreases z.len()
{
    if z.len() > 0 { lemma_be_zeros(z.drop_last()); }
}
/// leading zero bytes do not change a big-endian value
pub proof fn lemma_be_lead_zeros(z: Seq<u8>, s: Seq<u8>)
    requires forall|i: int| 0 <= i < z.len() ==> z[i] == 0,
    ensures be_val(z + s) == be_val(s)
    decreases s.len()
{
    if s.len() == 0 { assert(z + s =~= z); lemma_be_zeros(z); }
    else {
        assert((z + s).drop_last() =~= z + s.drop_last());
        assert((z + s).last() == s.last());
        lemma_be_lead_zeros(z, s.drop_last());
    }
}
