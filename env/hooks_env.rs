// ---- env/hooks_env.rs: what the two hook handlers of src/plugin.rs need (assumed) ---------------
// Ghost record of what the handlers asked of the rest of the plugin: the requests handed to
// HtlcManager::handle_htlc with the answers it gave, and the heights handed to BlockWatcher::new_block.
pub struct HookGhost { pub handled: Seq<(messages::HtlcAcceptedRequest, messages::HtlcAcceptedResponse)>, pub told: Seq<u32> }
pub mod serde_json {
    use super::*;
    pub struct Value { pub _p: u8 }
    pub struct Error { pub _p: u8 }
    /// serde: the typed value a JSON document deserializes to, if it does (derive(Deserialize) is trusted)
    pub uninterp spec fn parse_json<T>(v: Value) -> Option<T>;
    /// serde: the JSON document a typed value serializes to (derive(Serialize) is trusted)
    pub uninterp spec fn json_of<T>(t: T) -> Value;
    #[verifier::external_body]
    pub fn from_value<T>(v: Value) -> (r: ::std::result::Result<T, Error>)
        ensures match r { Ok(t) => parse_json::<T>(v) == Some(t), Err(_) => parse_json::<T>(v) is None }
    { unimplemented!() }
    #[verifier::external_body]
    pub fn to_value<T>(t: T) -> (r: ::std::result::Result<Value, Error>)
        ensures r is Ok ==> r->Ok_0 == json_of(t)
    { unimplemented!() }
}
pub use serde_json::Value;
impl ::std::convert::From<serde_json::Error> for AnyErr { #[verifier::external_body] fn from(e: serde_json::Error) -> AnyErr { unimplemented!() } }
impl vstd::std_specs::convert::FromSpecImpl<serde_json::Error> for AnyErr {
    open spec fn obeys_from_spec() -> bool { false }
    open spec fn from_spec(v: serde_json::Error) -> Self { arbitrary() }
}
pub mod messages {
    pub struct HtlcAcceptedRequest { pub _p: u8 }      // opaque here: only passed through
    pub struct HtlcAcceptedResponse { pub _p: u8 }
}
pub mod payment_provider { pub trait PaymentProvider {} }
pub mod email { pub struct EmailNotificationService { pub _p: u8 } }
pub mod store { pub struct ClnDatastore { pub _p: u8 } }
pub mod cln_plugin {
    pub struct Plugin<S> { pub st: S }
    impl<S> Plugin<S> {
        #[verifier::external_body]
        pub fn state(&self) -> (r: &S) ensures *r == self.st { unimplemented!() }
    }
}
pub mod htlc_manager {
    use super::*;
    // `id`: ghost identity (a struct of PhantomData only would be single-valued: any two values provably equal)
    pub struct HtlcManager<B, N, P, S> { pub p: core::marker::PhantomData<(B, N, P, S)>, pub id: Ghost<int> }
    impl<B, N, P, S> HtlcManager<B, N, P, S> {
        /// the manager's answer to one hook call (units handle / lifecycle): recorded in the ghost
        #[verifier::external_body]
        pub fn handle_htlc(&self, req: &messages::HtlcAcceptedRequest, Tracked(h): Tracked<&mut HookGhost>) -> (r: messages::HtlcAcceptedResponse)
            ensures *final(h) == (HookGhost { handled: old(h).handled.push((*req, r)), ..*old(h) })
        { unimplemented!() }
    }
}
