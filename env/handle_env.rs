// ---- env/handle_env.rs: what handle_htlc's slices need besides the shared env -------------------
impl PartialEq for messages::TrampolineInfo {
    // structural equality (the real type derives PartialEq)
    #[verifier::external_body]
    fn eq(&self, o: &Self) -> (r: bool) ensures r == (*self == *o) { unimplemented!() }
}
// the table lock as seen from handle_htlc's classification prefix: taking it is a side effect
impl<T> Mutex<T> {
    #[verifier::external_body]
    pub fn lock(&self, Tracked(w): Tracked<&mut World>) -> (g: MutexGuard<T>)
        ensures final(w).lock_held,
    { unimplemented!() }
}
