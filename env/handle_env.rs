// ---- env/handle_env.rs: what handle_htlc's slices need besides the shared env -------------------
// the table lock as seen from handle_htlc's classification prefix: taking it is a side effect
impl<T> Mutex<T> {
    #[verifier::external_body]
    pub fn lock(&self, Tracked(w): Tracked<&mut World>) -> (g: MutexGuard<T>)
        ensures final(w).lock_held,
    { unimplemented!() }
}

// ---- whole handle_htlc --------------------------------------------------------------------------
pub mod tokio {
    // under E2 the spawned future has already been evaluated to its (unit) value by the stub of
    // payment_lifecycle; spawning is the hand-over to the scheduler (not under contract)
    #[verifier::external_body]
    pub fn spawn<T>(t: T) { unimplemented!() }
}
/// the table: `entry(k).or_insert_with(f)` yields the entry of `k`, creating it with `f()`.
/// Data-structure invariant (assumed, listed): every entry in the table satisfies the
/// representation invariant ps_inv with its ghost view -- entries are only created by
/// PaymentState::new and only changed by add_htlc / fail / resolve, which preserve it (unit paystate).
// `id`: ghost identity (a struct of PhantomData only would be single-valued: any two values provably equal)
pub struct Entry<'a> { pub _p: core::marker::PhantomData<&'a mut PaymentState>, pub id: Ghost<int> }
impl MutexGuard<HashMap<Hash, PaymentState>> {
    #[verifier::external_body]
    fn entry<'a>(&'a mut self, k: Hash) -> (r: Entry<'a>) { unimplemented!() }
    // membership test: nothing is promised about the answer (any table content is possible)
    #[verifier::external_body]
    fn contains_key(&self, k: &Hash) -> (r: bool) { unimplemented!() }
}
impl<'a> Entry<'a> {
    #[verifier::external_body]
    fn or_insert_with<'b, F: FnOnce() -> PaymentState>(self, f: F, Tracked(g): Tracked<&'b mut G>) -> (r: &'a mut PaymentState)
        requires call_requires(f, ()),
            // #new_entries_are_blank_and_valid [C06,C03]: what the closure builds is a valid blank entry
            forall|p: PaymentState| call_ensures(f, (), p) ==> ps_inv(p, blank_g()),
        ensures ps_inv(*r, *final(g)), final(g).via_listener == old(g).via_listener, final(g).listener_value == old(g).listener_value, final(g).incoming == old(g).incoming,
            // input validity assumption (listed): the held total plus the incoming HTLC fits in 64 bits
            sum_held(final(g).held) + final(g).incoming as int <= u64::MAX as int,
    { unimplemented!() }
}
spec fn blank_g() -> G { G { ready_q: Seq::empty(), fail_q: Seq::empty(), held: Seq::empty(), ever_ready_sent: false, via_listener: false, listener_value: None, incoming: 0 } }
// the hook call's own oneshot: under E2 `receiver.await` is the receiver itself; the value it
// yields is what was sent on the paired sender. Liveness assumption (listed, C06's eventually-clause
// is not applicable): a listener that was handed to add_htlc is eventually answered.
impl oneshot::Receiver<messages::HtlcAcceptedResponse> {
    #[verifier::external_body]
    pub fn context(self, c: &'static str, Tracked(g): Tracked<&mut G>) -> (r: crate::anyhow::Result<messages::HtlcAcceptedResponse>)
        ensures r is Ok, Some(r->Ok_0) == self.will_receive(),
            *final(g) == (G { via_listener: true, listener_value: Some(r->Ok_0), ..*old(g) }),
    { unimplemented!() }
}
