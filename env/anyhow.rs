// ---- env/anyhow.rs: anyhow::Error / Result / Context / anyhow! / format! (opaque) -------------
#[derive(Debug)]
pub struct AnyErr { pub _p: u8 }
pub mod anyhow {
    pub type Error = super::AnyErr;
    pub type Result<T> = ::std::result::Result<T, super::AnyErr>;
}
pub use anyhow::Result;
#[verifier::external_body]
pub fn mk_anyhow() -> AnyErr { unimplemented!() }
#[verifier::external_body]
pub fn mk_string() -> String { unimplemented!() }
// message text is dropped; macro arguments are not evaluated (side-effect free in this codebase)
#[allow(unused_macros)]
macro_rules! anyhow { ($($t:tt)*) => { mk_anyhow() } }
#[allow(unused_macros)]
macro_rules! format { ($($t:tt)*) => { mk_string() } }
pub trait Context<T> { fn context(self, c: &'static str) -> (r: Result<T>); }
impl<T> Context<T> for ::std::result::Result<T, std::time::SystemTimeError> {
    #[verifier::external_body]
    fn context(self, c: &'static str) -> (r: Result<T>)
        ensures (r is Ok) == (self is Ok), self is Ok ==> r->Ok_0 == self->Ok_0,
    { unimplemented!() }
}
impl ::std::convert::From<std::time::SystemTimeError> for AnyErr {
    #[verifier::external_body]
    fn from(e: std::time::SystemTimeError) -> AnyErr { unimplemented!() }
}
