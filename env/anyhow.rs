// ---- env/anyhow.rs: anyhow::Error / Result / Context / anyhow! / format! (opaque) -------------
#[derive(Debug)]
pub struct AnyErr { pub _p: u8 }
#[allow(unused_macros)]
macro_rules! __anyhow_path_macro { ($($t:tt)*) => { crate::mk_anyhow() } }
pub mod anyhow {
    pub type Error = super::AnyErr;
    pub type Result<T, E = super::AnyErr> = ::std::result::Result<T, E>;   // like anyhow: the error type defaults to anyhow::Error
    #[allow(unused_imports)]
    pub(crate) use __anyhow_path_macro as anyhow;
}
#[verifier::external_body]
pub fn mk_anyhow() -> AnyErr { unimplemented!() }
#[verifier::external_body]
pub fn mk_string() -> String { unimplemented!() }
// message text is dropped; macro arguments are not evaluated (side-effect free in this codebase)
#[allow(unused_macros)]
macro_rules! anyhow { ($($t:tt)*) => { mk_anyhow() } }
#[allow(unused_macros)]
macro_rules! format { ($($t:tt)*) => { mk_string() } }
pub trait Context<T> { fn context(self, c: &'static str) -> (r: anyhow::Result<T>); }
