// ---- env/logwriter_env.rs: what the log writer task (src/cln_plugin/logging.rs, start_writer) sees --
// Ghost LogWire: `taken` = log entries taken out of the queue, `attempts` = whole documents handed to
// the shared stdout writer, `lock_held` = this task holds the writer's mutex.  The writer is the SAME
// Arc<Mutex<FramedWrite<O, JsonCodec>>> the driver writes replies through (unit driver_run): one
// `send` under the lock encodes one complete document (unit codec) and flushes it.  ASSUMED.
pub struct LogWire { pub taken: nat, pub attempts: nat, pub lock_held: bool }
// ghost bookkeeping of the guard's drop (inserted by E7 where the guard goes out of scope)
#[verifier::external_body]
pub proof fn ghost_unlock(tracked w: &mut LogWire)
    ensures *final(w) == (LogWire { lock_held: false, ..*old(w) })
{ unimplemented!() }
pub mod serde_json { pub struct Value { pub _p: u8 } }
pub use serde_json::Value;
#[verifier::external_body]
pub fn mk_json() -> Value { unimplemented!() }
// json!({..}): an opaque document (its content is not part of C17); arguments are not evaluated
#[allow(unused_macros)]
macro_rules! json { ($($t:tt)*) => { crate::mk_json() } }
pub struct JsonCodec { pub _p: u8 }
// `id`: ghost identity (a struct of PhantomData only would be single-valued: any two values provably equal)
pub struct FramedWrite<O, C> { pub p: core::marker::PhantomData<(O, C)>, pub id: Ghost<int> }
// `id`: ghost identity (a struct of PhantomData only would be single-valued: any two values provably equal)
pub struct Mutex<T> { pub p: core::marker::PhantomData<T>, pub id: Ghost<int> }
// `id`: ghost identity (a struct of PhantomData only would be single-valued: any two values provably equal)
pub struct WriterGuard<'a, O> { pub p: core::marker::PhantomData<&'a O>, pub id: Ghost<int> }
pub trait AsyncWrite {}
impl<O> Mutex<FramedWrite<O, JsonCodec>> {
    /// tokio's Mutex is not reentrant: locking it again while holding it never returns
    #[verifier::external_body]
    pub fn lock(&self, Tracked(w): Tracked<&mut LogWire>) -> (g: WriterGuard<'_, O>)
        requires !old(w).lock_held,                                         // #the_writer_lock_is_never_taken_twice [C17,C06]
        ensures *final(w) == (LogWire { lock_held: true, ..*old(w) }),
    { unimplemented!() }
}
impl<'a, O> WriterGuard<'a, O> {
    /// SinkExt::send: encodes the value as one document and flushes it
    #[verifier::external_body]
    pub fn send(&mut self, v: Value, Tracked(w): Tracked<&mut LogWire>) -> (r: ::std::result::Result<(), AnyErr>)
        requires old(w).lock_held,
        ensures *final(w) == (LogWire { attempts: old(w).attempts + 1, ..*old(w) }),
    { unimplemented!() }
}
pub mod mpsc {
    use super::*;
    // `id`: ghost identity (a struct of PhantomData only would be single-valued: any two values provably equal)
    pub struct UnboundedSender<T> { pub p: core::marker::PhantomData<T>, pub id: Ghost<int> }
    // `id`: ghost identity (a struct of PhantomData only would be single-valued: any two values provably equal)
    pub struct UnboundedReceiver<T> { pub p: core::marker::PhantomData<T>, pub id: Ghost<int> }
    #[verifier::external_body]
    pub fn unbounded_channel<T>() -> (r: (UnboundedSender<T>, UnboundedReceiver<T>)) { unimplemented!() }
    impl<T> UnboundedReceiver<T> {
        /// waits for the next log entry -- possibly forever (nothing may be logged for hours): whoever
        /// holds the stdout writer's lock here keeps the driver from writing any reply
        #[verifier::external_body]
        pub fn recv(&mut self, Tracked(w): Tracked<&mut LogWire>) -> (r: Option<T>)
            requires !old(w).lock_held,                                     // #the_writer_lock_is_not_held_while_waiting_for_the_next_log_entry [C17,C06]
            ensures r is Some ==> *final(w) == (LogWire { taken: old(w).taken + 1, ..*old(w) }),
                r is None ==> *final(w) == *old(w),
        { unimplemented!() }
    }
}
