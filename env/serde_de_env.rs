// ---- env/serde_de_env.rs: serde's Deserialize/Deserializer and hex::decode as seen by
// SerializedTlvStream::deserialize (src/tlv.rs).  The deserializer is an opaque source whose next
// item either is a string (string_spec is Some) or is not; hex::decode is an uninterpreted partial
// function of the text.  ASSUMED, listed in the trusted base. -------------------------------------
pub mod serde {
    use super::*;
    pub mod de {
        pub trait Error: Sized { fn custom(msg: String) -> Self; }
    }
    pub trait Deserializer<'de>: Sized {
        type Error: de::Error;
        /// the string the next item of the input is, if it is one
        spec fn string_spec(&self) -> Option<Seq<char>>;
    }
    pub trait Deserialize<'de>: Sized {
        fn deserialize<D: Deserializer<'de>>(deserializer: D) -> (r: ::std::result::Result<Self, D::Error>);
    }
    impl<'de> Deserialize<'de> for String {
        #[verifier::external_body]
        fn deserialize<D: Deserializer<'de>>(deserializer: D) -> (r: ::std::result::Result<String, D::Error>)
            ensures match deserializer.string_spec() { Some(s) => r is Ok && r->Ok_0@ == s, None => r is Err },
        { unimplemented!() }
    }
}
pub use serde::{Deserialize, Deserializer};
pub mod hex {
    use super::*;
    #[derive(Debug)]
    pub struct FromHexError { pub _p: u8 }
    impl FromHexError { #[verifier::external_body] pub fn to_string(&self) -> String { unimplemented!() } }
    /// the bytes a text is the hex encoding of, if it is one (uninterpreted)
    pub uninterp spec fn hex_spec(s: Seq<char>) -> Option<Seq<u8>>;
    #[verifier::external_body]
    pub fn decode(s: String) -> (r: ::std::result::Result<Vec<u8>, FromHexError>)
        ensures match hex_spec(s@) { Some(b) => r is Ok && r->Ok_0@ == b, None => r is Err },
    { unimplemented!() }
}
impl AnyErr { #[verifier::external_body] pub fn to_string(&self) -> String { unimplemented!() } }
pub assume_specification<T, E>[::std::result::Result::<T, E>::unwrap_or](a: ::std::result::Result<T, E>, d: T) -> (r: T)
    ensures r == (match a { Ok(t) => t, Err(_) => d });
