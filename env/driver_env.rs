// ---- env/driver_env.rs: what the reply path of the plugin driver needs (assumed) ---------------
pub mod serde_json { pub struct Value { pub _p: u8 } }
pub use serde_json::Value;
/// abstract content of a JSON-RPC reply
pub enum ReplyAbs { Result { id: Value, result: Value }, Error { id: Value, error: RpcErrorObj } }
pub struct RpcErrorObj { pub _p: u8 }
pub uninterp spec fn reply_view(v: Value) -> ReplyAbs;
#[verifier::external_body]
pub fn mk_reply_result(id: Value, v: Value) -> (r: Value) ensures reply_view(r) == (ReplyAbs::Result { id, result: v }) { unimplemented!() }
#[verifier::external_body]
pub fn mk_reply_error(id: Value, e: RpcErrorObj) -> (r: Value) ensures reply_view(r) == (ReplyAbs::Error { id, error: e }) { unimplemented!() }
// json!({"jsonrpc": "2.0", "id": id, "result": v}) / {... "error": e}: only these two shapes are
// modelled; any other shape does not match the macro (the unit is then undecided)
#[allow(unused_macros)]
macro_rules! json {
    ({ "jsonrpc": "2.0", "id": $id:expr, "result": $v:expr $(,)? }) => { mk_reply_result($id, $v) };
    ({ "jsonrpc": "2.0", "id": $id:expr, "error": $e:expr $(,)? }) => { mk_reply_error($id, $e) };
}
#[verifier::external_body]
pub fn parse_error(error: String) -> RpcErrorObj { unimplemented!() }
impl AnyErr { #[verifier::external_body] pub fn to_string(&self) -> String { unimplemented!() } }

pub mod driver_mpsc {
    use super::*;
    pub struct SendError<T>(pub T);
    pub enum TrySendError<T> { Full(T), Closed(T) }
    // `id`: ghost identity (a struct of PhantomData only would be single-valued: any two values provably equal)
    pub struct Sender<T> { pub p: core::marker::PhantomData<T>, pub id: Ghost<int> }
    impl<T> Sender<T> {
        /// the receiving end (the driver's writer loop) has gone away
        pub uninterp spec fn closed(&self) -> bool;
        /// send() waits for room: the message is enqueued unless the channel is closed
        #[verifier::external_body]
        pub fn send(&self, v: T, Tracked(q): Tracked<&mut Seq<T>>) -> (r: ::std::result::Result<(), SendError<T>>)
            ensures (r is Ok) == !self.closed(), r is Ok ==> *final(q) == old(q).push(v), r is Err ==> *final(q) == *old(q),
        { unimplemented!() }
        /// try_send() gives up when the queue is full
        #[verifier::external_body]
        pub fn try_send(&self, v: T, Tracked(q): Tracked<&mut Seq<T>>) -> (r: ::std::result::Result<(), TrySendError<T>>)
            ensures r is Ok ==> *final(q) == old(q).push(v), r is Err ==> *final(q) == *old(q),
        { unimplemented!() }
    }
}
pub struct Plugin { pub sender: driver_mpsc::Sender<Value> }
impl<T> Context<()> for ::std::result::Result<(), driver_mpsc::SendError<T>> {
    #[verifier::external_body]
    fn context(self, c: &'static str) -> (r: anyhow::Result<()>) ensures (r is Ok) == (self is Ok) { unimplemented!() }
}
impl<T> Context<()> for ::std::result::Result<(), driver_mpsc::TrySendError<T>> {
    #[verifier::external_body]
    fn context(self, c: &'static str) -> (r: anyhow::Result<()>) ensures (r is Ok) == (self is Ok) { unimplemented!() }
}
