// ---- env/bytes.rs: mirror of the `bytes` crate (assumed contracts) ----------------------------
// `Buf` reads big-endian integers from the front of a byte sequence and PANICS when fewer bytes
// remain than requested (bytes-1.6 `panic_advance`): that is the `requires` of every getter.
#[verifier::external_trait_specification]
pub trait ExAsRef<T: core::marker::PointeeSized>: core::marker::PointeeSized {
    type ExternalTraitSpecificationFor: core::convert::AsRef<T>;
    fn as_ref(&self) -> (r: &T)
        ensures r == as_ref_view::<Self, T>(self);
}
pub uninterp spec fn as_ref_view<S: core::marker::PointeeSized, T: core::marker::PointeeSized>(s: &S) -> &T;
pub open spec fn as_ref_bytes<S>(s: S) -> Seq<u8> { as_ref_view::<S, [u8]>(&s)@ }

pub broadcast axiom fn axiom_vec_as_ref(v: Vec<u8>)
    ensures #[trigger] as_ref_bytes(v) == v@;

pub open spec fn be_val(s: Seq<u8>) -> nat decreases s.len() {
    if s.len() == 0 { 0 } else { be_val(s.drop_last()) * 256 + s.last() as nat }
}

pub mod bytes {
    use super::*;
    pub struct Bytes { pub data: Vec<u8> }
    impl Bytes {
        #[verifier::external_body]
        pub fn to_vec(&self) -> (r: Vec<u8>) ensures r@ == self.data@ { unimplemented!() }
        #[verifier::external_body]
        pub fn is_empty(&self) -> (r: bool) ensures r == (self.data@.len() == 0) { unimplemented!() }
        #[verifier::external_body]
        pub fn len(&self) -> (r: usize) ensures r == self.data@.len() { unimplemented!() }
        #[verifier::external_body]
        pub fn split_to(&mut self, at: usize) -> (r: Bytes)
            requires at <= old(self).data@.len(),      // bytes: panics otherwise
            ensures r.data@ == old(self).data@.take(at as int), final(self).data@ == old(self).data@.skip(at as int)
        { unimplemented!() }
        #[verifier::external_body]
        pub fn take(self, limit: usize) -> (r: buf::Take<Bytes>) ensures r.inner == self, r.limit == limit { unimplemented!() }
    }
    impl ::std::convert::From<Vec<u8>> for Bytes {
        #[verifier::external_body]
        fn from(v: Vec<u8>) -> (r: Bytes) ensures r.data@ == v@ { unimplemented!() }
    }
    impl ::std::convert::AsRef<[u8]> for Bytes {
        #[verifier::external_body]
        fn as_ref(&self) -> (r: &[u8]) { unimplemented!() }
    }
    pub broadcast axiom fn axiom_bytes_as_ref(b: Bytes)
        ensures #[trigger] as_ref_bytes(b) == b.data@;
    pub mod buf {
        use super::*;
        pub struct Take<T> { pub inner: T, pub limit: usize }
        impl<T> Take<T> {
            // NB: into_inner() returns the underlying buffer WITHOUT the limit (bytes semantics)
            #[verifier::external_body]
            pub fn into_inner(self) -> (r: T) ensures r == self.inner { unimplemented!() }
        }
    }
    pub trait Buf {
        spec fn bview(&self) -> Seq<u8>;
        fn remaining(&self) -> (r: usize)
            ensures r == self.bview().len();
        fn has_remaining(&self) -> (r: bool)
            ensures r == (self.bview().len() > 0);
        fn get_u8(&mut self) -> (r: u8)
            requires old(self).bview().len() >= 1,
            ensures r == old(self).bview()[0], final(self).bview() == old(self).bview().skip(1);
        fn get_u16(&mut self) -> (r: u16)
            requires old(self).bview().len() >= 2,
            ensures r as nat == be_val(old(self).bview().take(2)), final(self).bview() == old(self).bview().skip(2);
        fn get_u32(&mut self) -> (r: u32)
            requires old(self).bview().len() >= 4,
            ensures r as nat == be_val(old(self).bview().take(4)), final(self).bview() == old(self).bview().skip(4);
        fn get_u64(&mut self) -> (r: u64)
            requires old(self).bview().len() >= 8,
            ensures r as nat == be_val(old(self).bview().take(8)), final(self).bview() == old(self).bview().skip(8);
        fn copy_to_bytes(&mut self, len: usize) -> (r: Bytes)
            requires old(self).bview().len() >= len,
            ensures r.data@ == old(self).bview().take(len as int), final(self).bview() == old(self).bview().skip(len as int);
        // bytes: panics unless remaining() >= dst.len()
        fn copy_to_slice(&mut self, dst: &mut [u8])
            requires old(self).bview().len() >= old(dst)@.len(),
            ensures final(dst)@ == old(self).bview().take(old(dst)@.len() as int), final(self).bview() == old(self).bview().skip(old(dst)@.len() as int);
        // contiguous buffers only (&[u8], Bytes, Take<Bytes> -- the three types src/tlv.rs implements
        // ProtoBuf for): the current chunk is everything that remains
        fn chunk(&self) -> (r: &[u8])
            ensures r@ == self.bview();
        fn advance(&mut self, cnt: usize)
            requires old(self).bview().len() >= cnt,
            ensures final(self).bview() == old(self).bview().skip(cnt as int);
    }
    impl<'a> Buf for &'a [u8] {
        open spec fn bview(&self) -> Seq<u8> { (*self)@ }
        #[verifier::external_body] fn remaining(&self) -> (r: usize) { unimplemented!() }
        #[verifier::external_body] fn has_remaining(&self) -> (r: bool) { unimplemented!() }
        #[verifier::external_body] fn get_u8(&mut self) -> (r: u8) { unimplemented!() }
        #[verifier::external_body] fn get_u16(&mut self) -> (r: u16) { unimplemented!() }
        #[verifier::external_body] fn get_u32(&mut self) -> (r: u32) { unimplemented!() }
        #[verifier::external_body] fn get_u64(&mut self) -> (r: u64) { unimplemented!() }
        #[verifier::external_body] fn copy_to_bytes(&mut self, len: usize) -> (r: Bytes) { unimplemented!() }
        #[verifier::external_body] fn copy_to_slice(&mut self, dst: &mut [u8]) { unimplemented!() }
        #[verifier::external_body] fn chunk(&self) -> (r: &[u8]) { unimplemented!() }
        #[verifier::external_body] fn advance(&mut self, cnt: usize) { unimplemented!() }
    }
    impl Buf for Bytes {
        open spec fn bview(&self) -> Seq<u8> { self.data@ }
        #[verifier::external_body] fn remaining(&self) -> (r: usize) { unimplemented!() }
        #[verifier::external_body] fn has_remaining(&self) -> (r: bool) { unimplemented!() }
        #[verifier::external_body] fn get_u8(&mut self) -> (r: u8) { unimplemented!() }
        #[verifier::external_body] fn get_u16(&mut self) -> (r: u16) { unimplemented!() }
        #[verifier::external_body] fn get_u32(&mut self) -> (r: u32) { unimplemented!() }
        #[verifier::external_body] fn get_u64(&mut self) -> (r: u64) { unimplemented!() }
        #[verifier::external_body] fn copy_to_bytes(&mut self, len: usize) -> (r: Bytes) { unimplemented!() }
        #[verifier::external_body] fn copy_to_slice(&mut self, dst: &mut [u8]) { unimplemented!() }
        #[verifier::external_body] fn chunk(&self) -> (r: &[u8]) { unimplemented!() }
        #[verifier::external_body] fn advance(&mut self, cnt: usize) { unimplemented!() }
    }
    impl Buf for buf::Take<Bytes> {
        open spec fn bview(&self) -> Seq<u8> { if self.limit as int <= self.inner.data@.len() { self.inner.data@.take(self.limit as int) } else { self.inner.data@ } }
        #[verifier::external_body] fn remaining(&self) -> (r: usize) { unimplemented!() }
        #[verifier::external_body] fn has_remaining(&self) -> (r: bool) { unimplemented!() }
        #[verifier::external_body] fn get_u8(&mut self) -> (r: u8) { unimplemented!() }
        #[verifier::external_body] fn get_u16(&mut self) -> (r: u16) { unimplemented!() }
        #[verifier::external_body] fn get_u32(&mut self) -> (r: u32) { unimplemented!() }
        #[verifier::external_body] fn get_u64(&mut self) -> (r: u64) { unimplemented!() }
        #[verifier::external_body] fn copy_to_bytes(&mut self, len: usize) -> (r: Bytes) { unimplemented!() }
        #[verifier::external_body] fn copy_to_slice(&mut self, dst: &mut [u8]) { unimplemented!() }
        #[verifier::external_body] fn chunk(&self) -> (r: &[u8]) { unimplemented!() }
        #[verifier::external_body] fn advance(&mut self, cnt: usize) { unimplemented!() }
    }
}
