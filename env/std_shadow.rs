// ---- env/std_shadow.rs: gaps in vstd's std specs, and a clock model -------------------------
pub assume_specification<T: ::std::cmp::Ord>[::std::cmp::min](a: T, b: T) -> (r: T)
    ensures T::obeys_cmp_spec() ==> r == (if a.cmp_spec(&b) == core::cmp::Ordering::Greater { b } else { a });
pub assume_specification<T: ::std::cmp::Ord>[::std::cmp::max](a: T, b: T) -> (r: T)
    ensures T::obeys_cmp_spec() ==> r == (if b.cmp_spec(&a) == core::cmp::Ordering::Less { a } else { b });
pub assume_specification<T, E>[::std::result::Result::<T, E>::unwrap_or](s: ::std::result::Result<T, E>, d: T) -> (r: T)
    ensures r == (match s { Ok(v) => v, Err(_) => d });

pub use ::std::time::Duration;
// Duration is opaque to Verus; its value in nanoseconds is an uninterpreted view with the
// arithmetic laws of std (trusted).
pub uninterp spec fn dur_ns(d: Duration) -> nat;
pub assume_specification[::std::time::Duration::from_secs](s: u64) -> (r: Duration)
    ensures dur_ns(r) == s as nat * 1_000_000_000;
pub assume_specification[::std::time::Duration::saturating_sub](a: Duration, b: Duration) -> (r: Duration)
    ensures dur_ns(r) == (if dur_ns(a) >= dur_ns(b) { dur_ns(a) - dur_ns(b) } else { 0 });
pub assume_specification[::std::time::Duration::saturating_add](a: Duration, b: Duration) -> (r: Duration)
    ensures dur_ns(r) >= dur_ns(a), dur_ns(r) >= dur_ns(b), dur_ns(r) <= dur_ns(a) + dur_ns(b),
        dur_ns(a) + dur_ns(b) <= 18446744073709551615u64 as nat * 1_000_000_000 ==> dur_ns(r) == dur_ns(a) + dur_ns(b);
pub assume_specification[::std::time::Duration::checked_sub](a: Duration, b: Duration) -> (r: Option<Duration>)
    ensures match r { Some(d) => dur_ns(a) >= dur_ns(b) && dur_ns(d) == dur_ns(a) - dur_ns(b), None => dur_ns(a) < dur_ns(b) };
pub assume_specification[::std::time::Duration::from_millis](ms: u64) -> (r: Duration)
    ensures dur_ns(r) == ms as nat * 1_000_000;
pub assume_specification[::std::time::Duration::is_zero](a: &Duration) -> (r: bool)
    ensures r == (dur_ns(*a) == 0);
pub assume_specification[::std::time::Duration::as_nanos](a: &Duration) -> (r: u128)
    ensures r as nat == dur_ns(*a);
pub assume_specification[::std::time::Duration::as_secs](a: &Duration) -> (r: u64)
    ensures r as nat == dur_ns(*a) / 1_000_000_000;

// `std::time::{SystemTime, UNIX_EPOCH}` cannot be given specs (a const and an opaque type), so a
// local `std` shadows only `std::time`; every other path of std is re-exported unchanged, and the
// extracted text needs no edit.
pub mod std {
    pub use ::std::cmp;
    pub use ::std::sync;
    pub use ::std::result;
    pub use ::std::option;
    pub use ::std::marker;
    pub use ::std::vec;
    pub use ::std::string;
    pub use ::std::convert;
    pub mod time {
        use vstd::prelude::*;
        pub use ::std::time::Duration;
        pub struct SystemTime { pub ns: u64 }
        #[derive(Debug)]
        pub struct SystemTimeError { pub p: u8 }
        pub const UNIX_EPOCH: SystemTime = SystemTime { ns: 0 };
        // wall clock reading in nanoseconds since the epoch, as observed by `now()`
        impl SystemTime {
            #[verifier::external_body]
            pub fn now() -> (r: SystemTime) { unimplemented!() }
            // Assumption (listed): the system clock is not before 1970, so the real
            // `duration_since(UNIX_EPOCH)` is `Ok`.
            #[verifier::external_body]
            pub fn duration_since(&self, o: SystemTime) -> (r: ::std::result::Result<Duration, SystemTimeError>)
                ensures o.ns == 0 ==> (r is Ok && crate::dur_ns(r->Ok_0) == self.ns as nat),
            { unimplemented!() }
        }
    }
}
pub use crate::std::time::{SystemTime, UNIX_EPOCH};

// anyhow glue for the clock error type
impl<T> Context<T> for ::std::result::Result<T, std::time::SystemTimeError> {
    #[verifier::external_body]
    fn context(self, c: &'static str) -> (r: anyhow::Result<T>)
        ensures (r is Ok) == (self is Ok), self is Ok ==> r->Ok_0 == self->Ok_0,
    { unimplemented!() }
}
impl ::std::convert::From<std::time::SystemTimeError> for AnyErr {
    #[verifier::external_body]
    fn from(e: std::time::SystemTimeError) -> AnyErr { unimplemented!() }
}

// String::from(&str) copies the characters (std); stated over vstd's From spec functions
pub broadcast axiom fn axiom_string_from_str(s: &str)
    ensures #![trigger s@]
        <String as vstd::std_specs::convert::FromSpec<&str>>::obeys_from_spec(),
        (<String as vstd::std_specs::convert::FromSpec<&str>>::from_spec(s))@ == s@;

// tokio::time::Instant / std::time::Instant: a monotone clock reading; elapsed() is some duration
pub struct Instant { pub _p: u8 }
impl Instant {
    #[verifier::external_body]
    pub fn now() -> (r: Instant) { unimplemented!() }
    #[verifier::external_body]
    pub fn elapsed(&self) -> (r: Duration) { unimplemented!() }
}
pub assume_specification[::std::time::Duration::as_millis](a: &Duration) -> (r: u128)
    ensures r as nat == dur_ns(*a) / 1_000_000;
