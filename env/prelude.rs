// ---- env/prelude.rs: log macros (E-catalogue: arguments are not evaluated) and demonic choice ----
#[allow(unused_macros)]
macro_rules! trace { ($($t:tt)*) => { () } }
#[allow(unused_macros)]
macro_rules! debug { ($($t:tt)*) => { () } }
#[allow(unused_macros)]
macro_rules! warn  { ($($t:tt)*) => { () } }
#[allow(unused_macros)]
macro_rules! error { ($($t:tt)*) => { () } }
#[allow(unused_macros)]
macro_rules! info  { ($($t:tt)*) => { () } }

#[verifier::external_body]
pub fn nondet() -> bool { unimplemented!() }
// E3r: tokio::select! panics when every branch was disabled by a non-matching refutable pattern and
// there is no `else` arm -- a panic obligation (the precondition cannot be met)
#[verifier::external_body]
pub fn select_all_branches_disabled() -> ! requires false { unimplemented!() }

// `vec![elem; n]` allocates n elements up front: std panics ("capacity overflow") when that exceeds
// isize::MAX bytes.  The std macro is shadowed so that this panic is an obligation; every other
// form of vec! is the std one.  (vstd's own spec of from_elem has no such precondition.)
#[verifier::external_body]
pub fn vec_from_elem_checked<T: Clone>(elem: T, n: usize) -> (r: Vec<T>)
    requires n <= isize::MAX,
    ensures r@.len() == n, forall|i: int| 0 <= i < n ==> cloned::<T>(elem, #[trigger] r@[i]),
{ unimplemented!() }
#[allow(unused_macros)]
macro_rules! vec {
    ($elem:expr; $n:expr) => { crate::vec_from_elem_checked($elem, $n) };
    ($($x:tt)*) => { ::std::vec![$($x)*] };
}
