// ---- env/prelude.rs: log macros (E-catalogue: arguments are not evaluated) and demonic choice ----
#[allow(unused_macros)]
macro_rules! trace { ($($t:tt)*) => { () } }
#[allow(unused_macros)]
macro_rules! debug { ($($t:tt)*) => { () } }
#[allow(unused_macros)]
macro_rules! warn  { ($($t:tt)*) => { () } }
#[allow(unused_macros)]
macro_rules! error { ($($t:tt)*) => { () } }
#[allow(unused_macros)]
macro_rules! info  { ($($t:tt)*) => { () } }

#[verifier::external_body]
pub fn nondet() -> bool { unimplemented!() }
