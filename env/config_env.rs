// ---- env/config_env.rs: plugin options as seen by main() -----------------------------------------
// Option descriptors are opaque distinct tokens (E11); the value the node delivered for an option
// is an uninterpreted function of the configured plugin and the token.
pub struct IntOpt { pub id: u32 }
pub struct FlagOpt { pub id: u32 }
pub struct BoolOpt { pub id: u32 }
pub struct StrOpt { pub id: u32 }
pub type DefaultIntegerConfigOption = IntOpt;
pub type FlagConfigOption = FlagOpt;
pub type DefaultBooleanConfigOption = BoolOpt;
pub struct ConfiguredPlugin { pub _p: u8 }
pub uninterp spec fn cfg_int(cp: ConfiguredPlugin, o: IntOpt) -> i64;
pub uninterp spec fn cfg_flag(cp: ConfiguredPlugin, o: FlagOpt) -> bool;
pub uninterp spec fn cfg_bool(cp: ConfiguredPlugin, o: BoolOpt) -> bool;
pub trait OptKind { type V; spec fn cfg(cp: ConfiguredPlugin, o: &Self) -> Self::V; }
impl OptKind for IntOpt { type V = i64; open spec fn cfg(cp: ConfiguredPlugin, o: &Self) -> i64 { cfg_int(cp, *o) } }
impl OptKind for FlagOpt { type V = bool; open spec fn cfg(cp: ConfiguredPlugin, o: &Self) -> bool { cfg_flag(cp, *o) } }
impl OptKind for BoolOpt { type V = bool; open spec fn cfg(cp: ConfiguredPlugin, o: &Self) -> bool { cfg_bool(cp, *o) } }
impl ConfiguredPlugin {
    #[verifier::external_body]
    pub fn option<O: OptKind>(&self, o: &O) -> (r: ::std::result::Result<O::V, AnyErr>)
        ensures r is Ok && r->Ok_0 == O::cfg(*self, o),
    { unimplemented!() }
}
pub type Error = AnyErr;
impl ::std::convert::From<::std::num::TryFromIntError> for AnyErr { #[verifier::external_body] fn from(e: ::std::num::TryFromIntError) -> AnyErr { unimplemented!() } }
impl vstd::std_specs::convert::FromSpecImpl<::std::num::TryFromIntError> for AnyErr {
    open spec fn obeys_from_spec() -> bool { false }
    open spec fn from_spec(v: ::std::num::TryFromIntError) -> Self { arbitrary() }
}
