// ---- env/bytes_mut.rs: bytes::BufMut / BytesMut as used by the TLV encoder (assumed) -------------
pub mod bytes_mut_env {
    use super::*;
    pub trait BufMut {
        spec fn mview(&self) -> Seq<u8>;
        fn put_u8(&mut self, n: u8) ensures final(self).mview() == old(self).mview() + be_bytes(n as nat, 1);
        fn put_u16(&mut self, n: u16) ensures final(self).mview() == old(self).mview() + be_bytes(n as nat, 2);
        fn put_u32(&mut self, n: u32) ensures final(self).mview() == old(self).mview() + be_bytes(n as nat, 4);
        fn put_u64(&mut self, n: u64) ensures final(self).mview() == old(self).mview() + be_bytes(n as nat, 8);
    }
    pub struct BytesMut { pub data: Vec<u8> }
    impl BufMut for BytesMut {
        open spec fn mview(&self) -> Seq<u8> { self.data@ }
        #[verifier::external_body] fn put_u8(&mut self, n: u8) { unimplemented!() }
        #[verifier::external_body] fn put_u16(&mut self, n: u16) { unimplemented!() }
        #[verifier::external_body] fn put_u32(&mut self, n: u32) { unimplemented!() }
        #[verifier::external_body] fn put_u64(&mut self, n: u64) { unimplemented!() }
    }
    impl BytesMut {
        #[verifier::external_body]
        pub fn new() -> (r: BytesMut) ensures r.data@.len() == 0 { unimplemented!() }
        // BufMut::put(src) appends all bytes of src
        #[verifier::external_body]
        pub fn put(&mut self, src: &[u8]) ensures final(self).data@ == old(self).data@ + src@ { unimplemented!() }
        #[verifier::external_body]
        pub fn to_vec(&self) -> (r: Vec<u8>) ensures r@ == self.data@ { unimplemented!() }
    }
}
