// ---- env/tokio.rs: channels, mutex + table, timer (assumed contracts) -------------------------
pub mod oneshot {
    use super::*;
    // `id`: ghost identity (a struct of PhantomData only would be single-valued: any two values provably equal)
    pub struct Sender<T> { pub p: core::marker::PhantomData<T>, pub id: Ghost<int> }
    // `id`: ghost identity (a struct of PhantomData only would be single-valued: any two values provably equal)
    pub struct Receiver<T> { pub p: core::marker::PhantomData<T>, pub id: Ghost<int> }
    // the receiver yields exactly what is (ever) sent on its sender: `fate`
    #[verifier::external_body]
    pub fn channel<T>() -> (r: (Sender<T>, Receiver<T>)) ensures r.1.will_receive() == r.0.fate() { unimplemented!() }
    impl<T> Receiver<T> {
        pub uninterp spec fn will_receive(&self) -> Option<T>;
    }
    impl<T> Sender<T> {
        /// Prophecy: the unique value ever sent on this sender (`send` consumes `self`).
        pub uninterp spec fn fate(&self) -> Option<T>;
        #[verifier::external_body]
        pub fn send(self, t: T) -> (r: ::std::result::Result<(), T>)
            ensures self.fate() == Some(t)
        { unimplemented!() }
    }
}
pub mod mpsc {
    use super::*;
    // `id`: ghost identity (a struct of PhantomData only would be single-valued: any two values provably equal)
    pub struct Sender<T> { pub p: core::marker::PhantomData<T>, pub id: Ghost<int> }
    // `id`: ghost identity (a struct of PhantomData only would be single-valued: any two values provably equal)
    pub struct Receiver<T> { pub p: core::marker::PhantomData<T>, pub id: Ghost<int> }
    pub struct SendError<T>(pub T);
    #[verifier::external_body]
    pub fn channel<T>(buffer: usize) -> (r: (Sender<T>, Receiver<T>))
        requires buffer == 1,   // the queue model of env/paystate_env.rs is for capacity-1 channels (C06b)
    { unimplemented!() }
}
// `id`: ghost identity (a struct of PhantomData only would be single-valued: any two values provably equal)
pub struct HashMap<K, V> { pub p: core::marker::PhantomData<(K, V)>, pub id: Ghost<int> }
// `id`: ghost identity (a struct of PhantomData only would be single-valued: any two values provably equal)
pub struct Mutex<T> { pub p: core::marker::PhantomData<T>, pub id: Ghost<int> }
pub struct MutexGuard<T> { pub p: core::marker::PhantomData<T>, pub snap: Ghost<World> }
