// ---- env/paystate_env.rs: ghost view of one table entry and its two capacity-1 channels --------
pub struct HeldAbs { pub amount: u64, pub expiry: u32 }
pub struct G {
    pub ready_q: Seq<()>,                              // contents of the payment_ready channel
    pub fail_q: Seq<messages::HtlcAcceptedResponse>,   // contents of the fail_requested channel
    pub held: Seq<HeldAbs>,                            // HTLCs held (unanswered) in this entry
    pub ever_ready_sent: bool,
    pub via_listener: bool,
    pub listener_value: Option<messages::HtlcAcceptedResponse>,   // what that receiver yielded
    pub incoming: u64,                                 // amount of the HTLC handle_htlc is about to add (input-validity bound below)                            // handle_htlc's answer was taken from its own oneshot receiver
}
pub open spec fn sum_held(s: Seq<HeldAbs>) -> int decreases s.len() {
    if s.len() == 0 { 0 } else { sum_held(s.drop_last()) + s.last().amount as int }
}
pub open spec fn min_held(s: Seq<HeldAbs>) -> int decreases s.len() {
    if s.len() == 0 { u32::MAX as int } else {
        let m = min_held(s.drop_last());
        if (s.last().expiry as int) < m { s.last().expiry as int } else { m }
    }
}
pub proof fn lemma_push_held(s: Seq<HeldAbs>, h: HeldAbs)
    ensures sum_held(s.push(h)) == sum_held(s) + h.amount as int,
        min_held(s.push(h)) == (if (h.expiry as int) < min_held(s) { h.expiry as int } else { min_held(s) }),
{
    assert(s.push(h).drop_last() == s);
}
#[verifier::external_body]
pub proof fn ghost_hold(tracked g: &mut G, h: HeldAbs)
    ensures *final(g) == (G { held: old(g).held.push(h), ..*old(g) })
{ unimplemented!() }
impl mpsc::Sender<()> {
    /// A send on a full channel would block with the global table lock held (C06): the contract
    /// therefore requires room.
    #[verifier::external_body]
    pub fn send(&self, t: (), Tracked(g): Tracked<&mut G>) -> (r: ::std::result::Result<(), mpsc::SendError<()>>)
        requires
            old(g).ready_q.len() < 1,          // #send_never_blocks [C06,C14,C11,C09,C07,C02]
        ensures *final(g) == (G { ready_q: old(g).ready_q.push(t), ever_ready_sent: true, ..*old(g) }),
    { unimplemented!() }
}
impl mpsc::Sender<messages::HtlcAcceptedResponse> {
    #[verifier::external_body]
    pub fn send(&self, t: messages::HtlcAcceptedResponse, Tracked(g): Tracked<&mut G>) -> (r: ::std::result::Result<(), mpsc::SendError<messages::HtlcAcceptedResponse>>)
        requires
            old(g).fail_q.len() < 1,           // #send_never_blocks [C06,C14,C11,C09,C07,C02]
            t is Fail,                              // #fail_channel_carries_only_fail [C02]
        ensures *final(g) == (G { fail_q: old(g).fail_q.push(t), ..*old(g) }),
    { unimplemented!() }
}
