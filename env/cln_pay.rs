// ---- env/cln_pay.rs: pay / listsendpays / waitsendpay of the node (assumed semantics) -----------
#[derive(Clone, Copy)]
pub struct Secret { pub b: [u8; 32] }
impl Secret { #[verifier::external_body] pub fn to_vec(&self) -> (r: Vec<u8>) ensures r@ == self.b@ { unimplemented!() } }
pub struct Amount { pub msat: u64 }
impl Amount {
    #[verifier::external_body]
    pub fn from_msat(m: u64) -> (r: Amount) ensures r.msat == m { unimplemented!() }
    // cln_rpc: satoshi constructors multiply by 1000 (wrapping is not modelled: the product must fit)
    #[verifier::external_body]
    pub fn from_sat(s: u64) -> (r: Amount) requires s as int * 1000 <= u64::MAX as int, ensures r.msat as int == s as int * 1000 { unimplemented!() }
}
pub enum PayStatus { COMPLETE, PENDING, FAILED }
pub struct PayRequest {
    pub amount_msat: Option<Amount>, pub partial_msat: Option<Amount>, pub bolt11: String, pub label: Option<String>,
    pub riskfactor: Option<f64>, pub maxfeepercent: Option<f64>, pub retry_for: Option<u16>, pub maxdelay: Option<u16>,
    pub exemptfee: Option<Amount>, pub localinvreqid: Option<String>, pub exclude: Option<Vec<String>>,
    pub maxfee: Option<Amount>, pub description: Option<String>,
}
pub struct PayResponse { pub status: PayStatus, pub payment_preimage: Secret, pub warning_partial_completion: Option<String> }

pub mod cln_rpc_err {
    /// mirror of cln_rpc::RpcError (code / message)
    pub struct ClnRpcError { pub code: Option<i32>, pub message: String }
}
// the crate path under which the real code names the node's error object
pub mod cln_rpc { pub use super::cln_rpc_err::ClnRpcError as RpcError; }
pub mod rpc {
    use super::*;
    pub enum RpcError { Rpc(cln_rpc_err::ClnRpcError), General(AnyErr) }
    impl RpcError {
        #[verifier::external_body]
        pub fn to_string(&self) -> String { unimplemented!() }
    }
    pub trait ClnRpc {
        /// One `pay` command.  While it runs it may create parts (pay_running); when it has
        /// returned -- with any result -- it creates no further parts (assumption, listed).
        fn pay(&self, request: &PayRequest, Tracked(w): Tracked<&mut World>) -> (r: ::std::result::Result<PayResponse, RpcError>)
            requires
                !old(w).lock_held,                                            // #no_rpc_under_lock [C14,C06,C11]
                store_of(*old(w)) is Pending,                                 // #write_ahead [C08,C05]
                !live(*old(w)) && !old(w).pay_running,                        // #nothing_live [C05,C08]
                request.bolt11@ == old(w).bolt11,                             // #pays_the_invoice_of_the_hash [C01,C03,C10,C05]
                request.maxfee is Some && request.maxfee->0.msat as int <= old(w).received_read - old(w).amount,   // #fee_budget_is_maxfee [C03]
                request.maxfeepercent is None && request.exemptfee is None,   // #no_other_fee_knob [C03]
                (request.amount_msat is None) == (old(w).inv_amount is Some), // #amount_only_for_amountless_invoices [C03,C10]
                request.amount_msat is Some ==> request.amount_msat->0.msat == old(w).amount,   // #declared_amount_exactly [C03,C10]
                request.partial_msat is None,                                 // #no_partial_payment [C03]
                request.retry_for is Some,                                    // #retry_time_is_bounded [C19]
                request.maxdelay is Some && request.maxdelay->0 as int <= max0(old(w).min_expiry_read - old(w).height_read - old(w).cltv_delta as int)
                    && request.maxdelay->0 as int <= old(w).pol_delta as int,  // #maxdelay [C04,C19]
            ensures
                rely_env(World { pay_running: true, ..*old(w) }, World { pay_running: true, ..*final(w) }),
                ds_hash_unchanged(*old(w), *final(w)), final(w).faulted == old(w).faulted, !final(w).pay_running,
                r is Ok ==> match r->Ok_0.status {
                    PayStatus::COMPLETE => final(w).complete == Some(r->Ok_0.payment_preimage.b@),
                    PayStatus::FAILED => r->Ok_0.warning_partial_completion is None ==> !live(*final(w)),
                    PayStatus::PENDING => true,
                };
    }
}
