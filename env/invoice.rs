// ---- env/invoice.rs: utf-8, FromStr/parse, lightning_invoice accessors (assumed contracts) ----
pub struct Utf8Error { pub _p: u8 }
pub uninterp spec fn utf8_spec(b: Seq<u8>) -> Option<Seq<char>>;
#[verifier::external_body]
pub fn from_utf8(v: &[u8]) -> (r: ::std::result::Result<&str, Utf8Error>)
    ensures match r { Ok(s) => utf8_spec(v@) == Some(s@), Err(_) => utf8_spec(v@) is None }
{ unimplemented!() }

#[verifier::external_trait_specification]
pub trait ExFromStr: Sized {
    type ExternalTraitSpecificationFor: ::std::str::FromStr;
    type Err;
    fn from_str(s: &str) -> ::std::result::Result<Self, Self::Err>;
}
pub uninterp spec fn parse_any<F>(s: Seq<char>) -> Option<F>;
pub assume_specification<F: ::std::str::FromStr>[str::parse::<F>](s: &str) -> (r: ::std::result::Result<F, F::Err>)
    ensures match r { Ok(i) => parse_any::<F>(s@) == Some(i), Err(_) => parse_any::<F>(s@) is None };

pub struct ParseErr { pub _p: u8 }
pub struct SigErr { pub _p: u8 }
impl ::std::str::FromStr for Bolt11Invoice {
    type Err = ParseErr;
    #[verifier::external_body]
    fn from_str(s: &str) -> (r: ::std::result::Result<Self, ParseErr>) { unimplemented!() }
}
impl ::std::convert::AsRef<[u8]> for Hash {
    #[verifier::external_body]
    fn as_ref(&self) -> (r: &[u8]) { unimplemented!() }
}
pub broadcast axiom fn axiom_hash_as_ref(h: Hash)
    ensures #[trigger] as_ref_view::<Hash, [u8]>(&h)@ == h.b@;

pub struct RouteHintHop { pub src_node_id: PublicKey }
pub struct RouteHint(pub Vec<RouteHintHop>);
impl Bolt11Invoice {
    pub uninterp spec fn route_hints_spec(&self) -> Seq<RouteHint>;
    #[verifier::external_body]
    pub fn check_signature(&self) -> (r: ::std::result::Result<(), SigErr>) ensures (r is Ok) == self.sig_ok_spec() { unimplemented!() }
    // lightning_invoice: recovers the payee key from the signature; panics if that fails
    #[verifier::external_body]
    pub fn get_payee_pub_key(&self) -> (r: PublicKey) requires self.sig_ok_spec(), ensures r == self.payee_spec() { unimplemented!() }
    // lightning_invoice: the key recovered from the signature alone ("only to be used if none was
    // included in the invoice"): not the explicit payee key when the invoice carries one
    pub uninterp spec fn recovered_key_spec(&self) -> PublicKey;
    #[verifier::external_body]
    pub fn recover_payee_pub_key(&self) -> (r: PublicKey) ensures r == self.recovered_key_spec() { unimplemented!() }
    // returns an env sequence type (mirror of Vec<RouteHint>) whose iterator has a spec'd `find`
    #[verifier::external_body]
    pub fn route_hints(&self) -> (r: HintVec) ensures r.v@ == self.route_hints_spec() { unimplemented!() }
}
impl PublicKey {
    #[verifier::external_body]
    pub fn eq(&self, o: &PublicKey) -> (r: bool) ensures r == (*self == *o) { unimplemented!() }
}

/// Mirror of `Vec<RouteHint>` with std's `iter().find(pred)` semantics: the FIRST element for which
/// the predicate returns true, or None if it returns false for every element (trusted model of
/// std iteration; vstd's own `find` spec lacks the None half).
pub struct HintVec { pub v: Vec<RouteHint> }
pub struct HintIter<'a> { pub v: &'a Vec<RouteHint> }
impl HintVec {
    #[verifier::external_body]
    pub fn iter(&self) -> (r: HintIter<'_>) ensures r.v@ == self.v@ { unimplemented!() }
}
impl<'a> HintIter<'a> {
    #[verifier::external_body]
    pub fn find<P: FnMut(&&'a RouteHint) -> bool>(&mut self, pred: P) -> (r: Option<&'a RouteHint>)
        requires forall|x: &&RouteHint| call_requires(pred, (x,)),
        ensures
            r is None ==> forall|i: int| 0 <= i < old(self).v@.len() ==> call_ensures(pred, (&&(#[trigger] old(self).v@[i]),), false),
            r is Some ==> exists|i: int| 0 <= i < old(self).v@.len() && *r->0 == (#[trigger] old(self).v@[i]) && call_ensures(pred, (&&old(self).v@[i],), true),
    { unimplemented!() }
}
