// ---- env/dispatch_env.rs: what the two spawning tails of PluginDriver::dispatch_one need ---------
// dispatch_one is a select! branch future of run(): once it has read a message from the input, a
// suspension point (.await) in it is a point where run() may drop it -- and the message with it.
// Under E2 such an .await is written `.await_point()`, which carries the obligation below.
pub uninterp spec fn may_suspend_while_holding_a_message() -> bool;
pub trait AwaitPoint: Sized {
    fn await_point(self) -> (r: Self)
        requires
            may_suspend_while_holding_a_message(),   // #no_suspension_point_between_reading_a_message_and_handing_it_over [C17,C20,C06]
        ensures r == self;
}
impl<T> AwaitPoint for T {
    #[verifier::external_body]
    fn await_point(self) -> (r: Self) { unimplemented!() }
}
/// ghost count of the handler tasks handed to the scheduler
pub struct Disp { pub spawned: nat }
pub struct Task { pub _p: u8 }
#[verifier::external_body]
pub fn spawned_task() -> Task { unimplemented!() }
pub mod tokio {
    use super::*;
    #[verifier::external_body]
    pub fn spawn<T>(t: T, Tracked(d): Tracked<&mut Disp>)
        ensures final(d).spawned == old(d).spawned + 1
    { unimplemented!() }
}
pub mod serde_json { pub struct Value { pub _p: u8 } }
pub use serde_json::Value;
impl Clone for Value { #[verifier::external_body] fn clone(&self) -> (r: Self) ensures r == *self { unimplemented!() } }
// the reply channel's sending half, as far as a change of the spawning tail may touch it (tokio mpsc)
pub struct Sender { pub id: Ghost<int> }
pub struct OwnedPermit { pub id: Ghost<int> }
pub struct SendErr { pub _p: u8 }
impl Clone for Sender { #[verifier::external_body] fn clone(&self) -> (r: Self) ensures r == *self { unimplemented!() } }
impl Sender {
    // a future: waits for a free slot of the channel (under E2/E15 its `.await` is an await_point)
    #[verifier::external_body]
    pub fn reserve_owned(self) -> (r: ::std::result::Result<OwnedPermit, SendErr>) { unimplemented!() }
    #[verifier::external_body]
    pub fn reserve(&self) -> (r: ::std::result::Result<OwnedPermit, SendErr>) { unimplemented!() }
}
impl<T> Context<T> for ::std::result::Result<T, SendErr> {
    #[verifier::external_body]
    fn context(self, c: &'static str) -> (r: anyhow::Result<T>)
        ensures match self { Ok(v) => r == anyhow::Result::<T>::Ok(v), Err(_) => r is Err }
    { unimplemented!() }
}
pub struct Plugin { pub sender: Sender, pub _p: u8 }
impl Clone for Plugin { #[verifier::external_body] fn clone(&self) -> (r: Self) ensures r == *self { unimplemented!() } }
/// env mirror of the subscription table (HashMap<String, boxed callback>)
// `id`: ghost identity (a struct of PhantomData only would be single-valued: any two values provably equal)
pub struct SubMap<F> { pub p: core::marker::PhantomData<F>, pub id: Ghost<int> }
impl<F> SubMap<F> {
    pub uninterp spec fn has(&self, k: Seq<char>) -> bool;
    pub uninterp spec fn at(&self, k: Seq<char>) -> F;
    #[verifier::external_body]
    pub fn get(&self, k: &str) -> (r: Option<&F>)
        ensures r is Some == self.has(k@), r is Some ==> *r->0 == self.at(k@)
    { unimplemented!() }
}
/// env mirror of PluginDriver with the real field names used by the slices; the callbacks are a
/// generic Fn (the real ones are boxed dyn Fn)
pub struct PluginDriver<F> { pub wildcard_subscription: Option<F>, pub subscriptions: SubMap<F>, pub rpcmethods: SubMap<F>, pub setconfig_callback: Option<F> }
// serde_json::Value as seen by the lookup part of dispatch_one: member access and string view (uninterpreted)
pub uninterp spec fn jget(v: Value, k: Seq<char>) -> Option<Value>;
pub uninterp spec fn jstr(v: Value) -> Option<Seq<char>>;
impl Value {
    #[verifier::external_body]
    pub fn get(&self, k: &str) -> (r: Option<&Value>)
        ensures match r { Some(x) => jget(*self, k@) == Some(*x), None => jget(*self, k@) is None }
    { unimplemented!() }
    #[verifier::external_body]
    pub fn as_str(&self) -> (r: Option<&str>)
        ensures match r { Some(x) => jstr(*self) == Some(x@), None => jstr(*self) is None }
    { unimplemented!() }
}
impl<T> Context<T> for Option<T> {
    #[verifier::external_body]
    fn context(self, c: &'static str) -> (r: anyhow::Result<T>)
        ensures self is Some ==> r == Ok::<T, AnyErr>(self->0), self is None ==> r is Err
    { unimplemented!() }
}
pub trait WithContext<T>: Sized { fn with_context<C, G: FnOnce() -> C>(self, f: G) -> (r: anyhow::Result<T>); }
impl<T> WithContext<T> for Option<T> {
    #[verifier::external_body]
    fn with_context<C, G: FnOnce() -> C>(self, f: G) -> (r: anyhow::Result<T>)
        ensures self is Some ==> r == Ok::<T, AnyErr>(self->0), self is None ==> r is Err
    { unimplemented!() }
}
