"""unit store: Datastore trait + impl Datastore for ClnDatastore + key builders (src/store.rs) verbatim."""
from vlib.core import Src
from units.lifecycle import common_head, messages_mod


def build(u):
    st = Src.get("store.rs")
    m = Src.get("messages.rs")
    u.drop_async = True
    u.ghost_callees["m:datastore"] = "Tracked(w)"
    u.ghost_callees["m:listdatastore"] = "Tracked(w)"
    common_head(u)
    u.env("cln_rpc.rs")
    u.spec("failmsg_spec.rs", shared=True)
    u.spec("messages_ctor.rs", shared=True)
    u.spec("fee_spec.rs", shared=True)
    messages_mod(u, m)
    u.spec("iface.rs", shared=True)
    u.spec("store_lemmas.rs", shared=True)
    u.raw("pub mod rpc { pub use super::Rpc; }\n")
    u.raw("pub mod store {\nuse super::*;\nuse crate::anyhow::Result;\nuse crate::messages::TrampolineInfo;\n"
          "broadcast use crate::lemma_rely_store, crate::lemma_unchanged_store, crate::axiom_string_from_str, crate::lemma_ds_call_always, crate::lemma_other_key_keeps_safe_write, crate::lemma_ds_call_exclusive, crate::lemma_keys_distinct, store_axioms::axiom_ser_state, store_axioms::axiom_de_state;\n")
    u.item(st, "AttemptInfo", "struct")
    u.item(st, "ClnDatastore", "struct")
    u.item(st, "PaymentState", "enum")
    u.item(st, "PersistPaymentState", "enum")
    u.item(st, "AttemptId", "struct")
    u.spec("store.rs")
    u.trait(st, "Datastore", "store")
    u.impl(st, "PaymentState", ["from"], "store")
    u.impl(st, "ClnDatastore", ["add_payment_attempt", "fetch_payment_info", "mark_failed", "mark_succeeded"], "store", trait="Datastore")
    u.free_fn(st, "state_key", "store")
    u.free_fn(st, "attempt_key", "store")
    u.auto_here(st, "store")
    u.raw("}\n} // verus!\nfn main() {}\n")
