"""unit waitpay: PayPaymentProvider::wait_payment (src/payment_provider.rs) verbatim, against a
unit-local ghost of the node's sendpay parts (env/waitpay_env.rs)."""
from vlib.core import Src


def build(u):
    pp = Src.get("payment_provider.rs")
    u.drop_async = True
    u.ghost_callees["m:listsendpays"] = "Tracked(n)"
    u.ghost_callees["m:waitsendpay"] = "Tracked(n)"
    u.ghost_callees["m:push"] = ("Ghost(part_id(payment))", r"^tasks$")
    u.raw("use vstd::prelude::*;\nuse ::std::sync::Arc;\nverus! {\nglobal size_of usize == 8;\n")
    u.env("prelude.rs")
    u.env("std_extra.rs")
    u.canary_decls()
    u.env("anyhow.rs")
    u.env("ln_types.rs")
    u.env("waitpay_env.rs")
    u.spec("waitpay_lemmas.rs", shared=True)
    u.raw("pub mod payment_provider {\nuse super::*;\nuse crate::anyhow::Result;\nuse crate::rpc::{ClnRpc, RpcError};\nbroadcast use crate::lemma_node_rely_trans;\n")
    u.item(pp, "PayPaymentProvider", "struct")
    u.spec("waitpay.rs")
    u.auto_here(pp, "payment_provider")
    im = pp.find("PayPaymentProvider", "impl", trait="PaymentProvider")
    u._apply(pp, im["start"], im["start"] + 4, [])   # `impl`
    u.raw("<R> PayPaymentProvider<R> where R: ClnRpc + Send + Sync,\n{\n")
    u.fn(pp, pp.find_fn_in(im, "wait_payment"), "payment_provider::PayPaymentProvider::wait_payment")
    u.raw("}\n}\n} // verus!\nfn main() {}\n")
