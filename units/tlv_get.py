"""unit tlv_get: SerializedTlvStream::{get, remove} (src/tlv.rs) verbatim, proved against the same
interface contract the callers assume (specs/tlv_get.rs)."""
from vlib.core import Src


def build(u):
    t = Src.get("tlv.rs")
    u.raw("use vstd::prelude::*;\nverus! {\nglobal size_of usize == 8;\n")
    u.env("prelude.rs")
    u.env("std_extra.rs")
    u.canary_decls()
    u.env("vec_model.rs")
    u.raw("pub open spec fn be_val(s: Seq<u8>) -> nat decreases s.len() { if s.len() == 0 { 0 } else { be_val(s.drop_last()) * 256 + s.last() as nat } }\n")
    u.spec("tlv_spec.rs", shared=True)
    u.spec("tlv_get_lemmas.rs", shared=True)
    u.raw("pub mod tlv {\nuse super::*;\nuse crate::vec_model::Vec;\n")
    u.item(t, "TlvEntry", "struct")
    u.derived(t, "TlvEntry", "Clone", "tlv")
    u.item(t, "SerializedTlvStream", "struct")
    u.spec("tlv_get_proved.rs")
    u.spec("tlv_get.rs", shared=True)
    u.impl(t, "SerializedTlvStream", ["get", "remove"], "tlv")
    u.auto_here(t, "tlv")
    u.raw("}\n} // verus!\nfn main() {}\n")
