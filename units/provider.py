"""unit provider: PaymentProvider trait, PayPaymentProvider::{new, pay} (src/payment_provider.rs) verbatim;
wait_payment enters under its interface contract (unit waitpay / C15)."""
from vlib.core import Src
from units.lifecycle import common_head


def build(u):
    pp = Src.get("payment_provider.rs")
    u.drop_async = True
    u.ghost_callees["m:pay"] = "Tracked(w)"
    u.ghost_callees["m:wait_payment"] = "Tracked(w)"
    common_head(u)
    u.env("cln_pay.rs")
    m = Src.get("messages.rs")
    u.raw("pub mod messages {\nuse super::*;\n")
    u.item(m, "TrampolineRoutingPolicy", "struct")
    u.raw("}\n")
    u.spec("fee_spec.rs", shared=True)
    u.raw("pub mod payment_provider {\nuse super::*;\nuse crate::anyhow::Result;\nuse crate::rpc::{ClnRpc, RpcError};\n"
          "broadcast use crate::lemma_rely_store, crate::lemma_unchanged_store, crate::lemma_unchanged_trans;\n")
    u.item(pp, "PaymentRequest", "struct")
    u.spec("iface_provider.rs", shared=True)
    u.trait(pp, "PaymentProvider", "payment_provider")
    u.item(pp, "PayPaymentProvider", "struct")
    u.spec("provider.rs")
    u.auto_here(pp, "payment_provider")
    u.impl(pp, "PayPaymentProvider", ["new"], "payment_provider")
    u.impl(pp, "PayPaymentProvider", ["pay", "wait_payment"], "payment_provider", trait="PaymentProvider", stubs=("wait_payment",))
    u.raw("}\n} // verus!\nfn main() {}\n")
