"""unit lifecycle: payment_lifecycle + free fn resolve (src/htlc_manager.rs), verbatim, against the
interface contracts of specs/iface.rs and the ghost world of env/world.rs."""
from vlib.core import Src

GHOST = ["m:fetch_payment_info", "m:wait_payment", "m:mark_succeeded", "m:mark_failed", "m:add_payment_attempt",
         "m:pay", "m:notify_payment_failed", "m:current_height", "c:resolve", "m:lock", "m:recv",
         "c:tokio::time::sleep", "m:remove"]


def common_head(u):
    u.raw("use vstd::prelude::*;\nuse vstd::std_specs::cmp::OrdSpec;\nuse ::std::sync::Arc;\nverus! {\n")
    u.env("prelude.rs")
    u.env("std_extra.rs")
    u.canary_decls()
    u.env("std_shadow.rs")
    u.env("anyhow.rs")
    u.env("ln_types.rs")
    u.env("world.rs")
    u.env("tokio.rs")


def tlv_types(u, t):
    u.raw("pub mod tlv {\nuse super::*;\n")
    u.item(t, "TlvEntry", "struct")
    u.item(t, "SerializedTlvStream", "struct")
    u.raw("}\n")


def messages_mod(u, m, requests=False, t=None, fee="none"):
    """Real declarations of src/messages.rs.  fee: none | stub | real"""
    if requests and t is not None:
        tlv_types(u, t)
    u.raw("pub mod messages {\nuse super::*;\n")
    if requests:
        u.raw("use crate::tlv::SerializedTlvStream;\n")
        u.raw("pub struct ShortChannelId { pub v: u64 }   // env mirror of cln_rpc::primitives::ShortChannelId (opaque)\n")
        u.item(m, "HtlcAcceptedRequest", "struct")
        u.item(m, "Onion", "struct")
        u.item(m, "Htlc", "struct")
    u.item(m, "HtlcAcceptedResponse", "enum")
    u.derived(m, "HtlcAcceptedResponse", "Clone", "messages")
    u.item(m, "HtlcFailReason", "enum")
    u.item(m, "TrampolineRoutingPolicy", "struct")
    u.derived(m, "TrampolineRoutingPolicy", "Clone", "messages")
    u.derived(m, "TrampolineRoutingPolicy", "PartialEq", "messages")
    u.item(m, "TrampolineInfo", "struct")
    u.derived(m, "TrampolineInfo", "Clone", "messages")
    u.derived(m, "TrampolineInfo", "PartialEq", "messages")
    im = m.find("HtlcFailReason", "impl")
    u.raw("impl HtlcFailReason {\n")
    u.fn(m, m.find_fn_in(im, "encode"), "messages::HtlcFailReason::encode", stub=True)
    u.raw("}\n")
    u.impl(m, "HtlcAcceptedResponse", ["resolve", "temporary_node_failure", "temporary_trampoline_failure",
                                       "trampoline_fee_or_expiry_insufficient"], "messages")
    if fee != "none":
        im = m.find("TrampolineRoutingPolicy", "impl")
        u.raw("impl TrampolineRoutingPolicy {\n")
        u.fn(m, m.find_fn_in(im, "fee_sufficient"), "messages::TrampolineRoutingPolicy::fee_sufficient", stub=(fee == "stub"))
        u.raw("}\n")
    u.raw("}\n")


def build(u):
    h = Src.get("htlc_manager.rs")
    m = Src.get("messages.rs")
    st = Src.get("store.rs")
    pp = Src.get("payment_provider.rs")
    bw = Src.get("block_watcher.rs")
    em = Src.get("email.rs")
    u.drop_async = True
    u.cancel_unsafe = {"pay": "pay__dropped"}     # E3d
    u.e7 = True
    for g in GHOST:
        u.ghost_callees[g] = "Tracked(w)"
    common_head(u)
    u.spec("failmsg_spec.rs", shared=True)
    u.spec("messages_ctor.rs", shared=True)
    u.spec("fee_spec.rs", shared=True)
    u.spec("iface.rs", shared=True)
    u.spec("iface_provider.rs", shared=True)
    u.spec("paystate_shared.rs", shared=True)
    u.spec("lifecycle.rs")
    messages_mod(u, m)
    u.raw("pub mod store {\nuse super::*;\nuse crate::anyhow::Result;\nuse crate::messages::TrampolineInfo;\n")
    u.item(st, "PaymentState", "enum")
    u.item(st, "AttemptId", "struct")
    u.trait(st, "Datastore", "store")
    u.raw("}\npub use store::Datastore;\n")
    u.raw("pub mod payment_provider {\nuse super::*;\nuse crate::anyhow::Result;\n")
    u.item(pp, "PaymentRequest", "struct")
    u.trait(pp, "PaymentProvider", "payment_provider")
    u.raw("}\npub use payment_provider::{PaymentProvider, PaymentRequest};\n")
    u.raw("pub mod block_watcher {\nuse super::*;\n")
    u.trait(bw, "BlockProvider", "block_watcher")
    u.raw("}\npub use block_watcher::BlockProvider;\n")
    u.raw("pub mod email {\nuse super::*;\n")
    u.item(em, "NotifyPaymentFailedRequest", "struct")
    u.trait(em, "NotificationService", "email")
    u.raw("}\npub use email::{NotificationService, NotifyPaymentFailedRequest};\n")
    u.raw("pub mod htlc_manager {\nuse super::*;\nuse crate::anyhow::Result;\nuse crate::messages::{HtlcAcceptedResponse, TrampolineInfo, TrampolineRoutingPolicy};\n")
    u.raw("broadcast use crate::lemma_rely_store, crate::lemma_unchanged_store;\n")
    u.item(h, "HtlcManagerParams", "struct")
    u.item(h, "PaymentState", "struct", extra_attr="pub")
    u.raw("impl PaymentState {\n")
    im = h.find("PaymentState", "impl")
    u.fn(h, h.find_fn_in(im, "resolve"), "htlc_manager::PaymentState::resolve", stub=True)
    u.raw("}\n")
    u.env("life_env.rs")
    u.free_fn(h, "payment_lifecycle", "htlc_manager")
    u.free_fn(h, "resolve", "htlc_manager")
    u.auto_here(h, "htlc_manager")
    u.raw("}\n} // verus!\nfn main() {}\n")
