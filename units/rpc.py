"""unit rpc: src/rpc.rs -- the ClnRpc trait, RpcError and its two From impls, Rpc::{new, rpc} and the
six methods of `impl ClnRpc for Rpc`, against "hands back exactly what the node answered".
Not under contract: Display / std::error::Error for RpcError (formatting only)."""
from vlib.core import Src


def build(u):
    r = Src.get("rpc.rs")
    u.drop_async = True
    u.raw("use vstd::prelude::*;\nverus! {\n")
    u.env("prelude.rs")
    u.env("std_extra.rs")
    u.canary_decls()
    u.env("anyhow.rs")
    u.env("rpc_env.rs")
    u.raw("pub mod rpc {\nuse super::*;\nuse crate::anyhow::Result;\n"
          "use crate::cln_rpc::model::requests::{DatastoreRequest, GetinfoRequest, ListdatastoreRequest, ListsendpaysRequest, PayRequest, WaitsendpayRequest};\n"
          "use crate::cln_rpc::model::responses::{DatastoreResponse, GetinfoResponse, ListdatastoreResponse, ListsendpaysResponse, PayResponse, WaitsendpayResponse};\n")
    u.item(r, "RpcError", "enum")
    u.spec("rpc.rs")
    u.trait(r, "ClnRpc", "rpc")
    for rx in (r"From<anyhow::Error>", r"From<cln_rpc::RpcError>"):
        im = r.find("RpcError", "impl", trait="From", header_rx=rx)
        u._apply(r, im["start"], im["span"][1], [])
        u.raw("\n")
        u.no_canary = getattr(u, "no_canary", set()) | {f"rpc::RpcError::from [{rx}]"}
        u.functions.append({"fn": f"rpc::RpcError::from [{rx}]", "file": "src/rpc.rs", "lines": [r.line_of(im["start"]), r.line_of(im["span"][1] - 1)],
                            "sha256": u.item_range_sha(r, im), "has_body": True, "no_canary": True})
    u.item(r, "Rpc", "struct")
    u.impl(r, "Rpc", ["new", "rpc"], "rpc")
    u.ghost_callees["m:call_typed"] = "Tracked(t)"
    u.desugar_try = True     # E14
    u.impl(r, "Rpc", ["datastore", "get_info", "listdatastore", "listsendpays", "pay", "waitsendpay"], "rpc", trait="ClnRpc")
    del u.ghost_callees["m:call_typed"]
    u.desugar_try = False
    u.auto_here(r, "rpc")
    u.raw("}\n} // verus!\nfn main() {}\n")
