"""unit paystate: struct PaymentState + new/add_htlc/fail/resolve (src/htlc_manager.rs) verbatim."""
from vlib.core import Src
from units.lifecycle import common_head, messages_mod


def build(u):
    h = Src.get("htlc_manager.rs")
    m = Src.get("messages.rs")
    t = Src.get("tlv.rs")
    u.drop_async = True
    u.ghost_callees["m:send"] = ("Tracked(g)", r"^self\s*\.\s*(payment_ready|fail_requested)$")
    common_head(u)
    u.spec("failmsg_spec.rs", shared=True)
    u.spec("messages_ctor.rs", shared=True)
    u.spec("fee_spec.rs", shared=True)
    u.spec("fee.rs", shared=True)
    u.spec("paystate_shared.rs", shared=True)
    messages_mod(u, m, requests=True, t=t, fee="stub")
    u.env("paystate_env.rs")
    u.raw("pub mod htlc_manager {\nuse super::*;\nuse crate::messages::{HtlcAcceptedRequest, HtlcAcceptedResponse, TrampolineInfo, TrampolineRoutingPolicy};\n")
    u.item(h, "PaymentState", "struct", extra_attr="pub")
    u.spec("paystate.rs")
    u.impl(h, "PaymentState", ["new", "add_htlc", "fail", "resolve"], "htlc_manager")
    u.auto_here(h, "htlc_manager")
    u.raw("}\n} // verus!\nfn main() {}\n")
