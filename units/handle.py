"""unit handle: check_htlc, extract_trampoline_info, default_response,
trampoline_fee_or_expiry_insufficient and the handle_htlc slices (src/htlc_manager.rs)."""
from vlib.core import Src
from units.lifecycle import common_head, messages_mod


def tlv_mod_stubs(u, t):
    """mod tlv with the real types and contract-only copies of the codec functions."""
    u.raw("pub mod tlv {\nuse super::*;\nuse crate::bytes::Buf;\n")
    u.item(t, "TlvEntry", "struct")
    u.derived(t, "TlvEntry", "Clone", "tlv")
    u.item(t, "SerializedTlvStream", "struct")
    u.derived(t, "SerializedTlvStream", "Clone", "tlv")
    u.spec("tlv_dec.rs", shared=True)
    u.spec("tlv_get.rs", shared=True)
    u.spec("tlv_enc_iface.rs", shared=True)
    u.impl(t, "SerializedTlvStream", ["get", "remove"], "tlv", stubs=("get", "remove"))
    u.trait(t, "FromBytes", "tlv")
    u.trait(t, "ToBytes", "tlv")
    u.item(t, "CompactSize", "type")
    u.item(t, "TU64", "type")
    tr = t.find("ProtoBuf", "trait")
    u._apply(t, tr["start"], tr["open"] + 1, [])
    u.raw("\n")
    u.fn(t, t.find_fn_in(tr, "get_compact_size"), "tlv::ProtoBuf::get_compact_size", stub=True)
    u.fn(t, t.find_fn_in(tr, "get_tu64"), "tlv::ProtoBuf::get_tu64", stub=True)
    u.raw("}\n")
    for ty in ["Bytes", "&[]", "Take"]:
        im = t.find(ty, "impl", trait="ProtoBuf")
        u._apply(t, im["start"], im["span"][1], [])
        u.raw("\n")
    u.impl(t, "SerializedTlvStream", ["from_bytes"], "tlv", trait="FromBytes", stubs=("from_bytes",))
    u.impl(t, "SerializedTlvStream", ["try_from"], "tlv", trait="TryFrom", stubs=("try_from",))
    u.impl(t, "SerializedTlvStream", ["to_bytes"], "tlv", trait="ToBytes", stubs=("to_bytes",))
    u.raw("}\n")


def build(u, slices_only=None, whole=True):
    h = Src.get("htlc_manager.rs")
    m = Src.get("messages.rs")
    t = Src.get("tlv.rs")
    u.drop_async = True
    u.raw("#![feature(sized_hierarchy)]\nuse vstd::prelude::*;\nuse vstd::std_specs::cmp::OrdSpec;\nuse ::std::sync::Arc;\nverus! {\n")
    u.raw("global size_of usize == 8;\n")
    u.env("prelude.rs")
    u.env("std_extra.rs")
    u.canary_decls()
    u.env("std_shadow.rs")
    u.env("anyhow.rs")
    u.env("ln_types.rs")
    u.env("bytes.rs")
    u.env("invoice.rs")
    u.env("world.rs")
    u.env("tokio.rs")
    u.spec("failmsg_spec.rs", shared=True)
    u.spec("messages_ctor.rs", shared=True)
    u.spec("fee_spec.rs", shared=True)
    u.spec("fee.rs", shared=True)
    u.spec("tlv_spec.rs", shared=True)
    tlv_mod_stubs(u, t)
    messages_mod(u, m, requests=True, t=None, fee="stub")
    u.raw("pub mod block_watcher { pub trait BlockProvider {} }\npub mod email { pub trait NotificationService {} }\n"
          "pub mod payment_provider { pub trait PaymentProvider {} }\npub mod store { pub trait Datastore {} }\n"
          "pub use block_watcher::BlockProvider; pub use email::NotificationService; pub use payment_provider::PaymentProvider; pub use store::Datastore;\n")
    u.raw("pub mod htlc_manager {\nuse super::*;\nuse crate::anyhow::Result;\n"
          "use crate::messages::{HtlcAcceptedRequest, HtlcAcceptedResponse, TrampolineInfo, TrampolineRoutingPolicy};\n"
          "use crate::tlv::{FromBytes, ProtoBuf, SerializedTlvStream, ToBytes};\n"
          "broadcast use crate::axiom_hash_as_ref, crate::bytes::axiom_bytes_as_ref, crate::axiom_vec_as_ref, crate::axiom_string_from_str;\n")
    for c in ["TLV_PAYMENT_METADATA", "TLV_TRAMPOLINE_INVOICE", "TLV_TRAMPOLINE_AMOUNT"]:
        u.item(h, c, "const")
    u.item(h, "HtlcManager", "struct")
    u.item(h, "HtlcManagerParams", "struct")
    u.item(h, "HtlcCheckResult", "enum")
    u.item(h, "PaymentState", "struct", extra_attr="pub")
    u.env("paystate_env.rs")
    u.env("handle_env.rs")
    u.spec("paystate_shared.rs", shared=True)
    u.spec("paystate.rs", shared=True)
    u.raw("impl PaymentState {\n")
    imp = h.find("PaymentState", "impl")
    for f in ["new", "add_htlc", "fail"]:
        u.fn(h, h.find_fn_in(imp, f), f"htlc_manager::PaymentState::{f}", stub=True)
    u.raw("}\n")
    u.spec("handle.rs", shared=True)
    u.impl(h, "HtlcManager", ["check_htlc", "extract_trampoline_info", "trampoline_fee_or_expiry_insufficient"], "htlc_manager")
    u.free_fn(h, "default_response", "htlc_manager")
    u.fn(h, h.find("payment_lifecycle", "fn"), "htlc_manager::payment_lifecycle", stub=True)
    # ---- the whole handle_htlc ----
    if not whole:
        return _finish(u, h, slices_only)
    u.ghost_callees["m:lock"] = "Tracked(w)"
    u.ghost_callees["m:fail"] = "Tracked(g)"
    u.ghost_callees["m:add_htlc"] = "Tracked(g)"
    u.ghost_callees["m:or_insert_with"] = "Tracked(g)"
    u.ghost_callees["m:context"] = ("Tracked(g)", r"^receiver")
    u.impl(h, "HtlcManager", ["handle_htlc"], "htlc_manager")
    for k in ["m:lock", "m:fail", "m:add_htlc", "m:or_insert_with", "m:context"]:
        del u.ghost_callees[k]
    _finish(u, h, slices_only)


def _finish(u, h, slices_only):
    if slices_only is not None:
        slices_only(u, h)
    u.auto_here(h, "htlc_manager")
    u.raw("}\n} // verus!\nfn main() {}\n")


def _slices_head(u, h):
    im = h.find("HtlcManager", "impl")
    hh = h.find_fn_in(im, "handle_htlc")
    u._apply(h, im["start"], im["open"] + 1, [])
    u.raw("\n")
    return hh


def emit_prefix_slice(u, h):
    # ---- E6 slice of handle_htlc: classification prefix ----
    hh = _slices_head(u, h)
    u.ghost_callees["m:lock"] = "Tracked(w)"
    u.slice(h, hh, "htlc_manager::HtlcManager::handle_htlc#prefix",
            r"^let trampoline = match self\.check_htlc\(req\)", r"before:^\{\s*let mut payments = self\.payments\.lock\(\)",
            "fn handle_htlc__prefix(&self, req: &HtlcAcceptedRequest, Tracked(w): Tracked<&mut World>) -> (r: Option<HtlcAcceptedResponse>)",
            tail="None", wrap_return="Some",
            note="slice handle_htlc#prefix: parameters are handle_htlc's own (&self, req); `return X` wrapped as Some(X), fall-through as None")
    del u.ghost_callees["m:lock"]
    u.raw("}\n")


def emit_gate_slice(u, h):
    # ---- E6 slice of handle_htlc: the gate under the table lock ----
    hh = _slices_head(u, h)
    u.ghost_callees["m:fail"] = "Tracked(g)"
    u.ghost_callees["m:add_htlc"] = "Tracked(g)"
    u.slice(h, hh, "htlc_manager::HtlcManager::handle_htlc#gate",
            r"after:^let payment_state = payments", r"^payment_state\.add_htlc\(",
            "fn handle_htlc__gate(&self, req: &HtlcAcceptedRequest, trampoline: TrampolineInfo, forward_msat: u64, "
            "payment_state: &mut PaymentState, sender: oneshot::Sender<HtlcAcceptedResponse>, Tracked(g): Tracked<&mut G>)",
            note="slice handle_htlc#gate: free variables trampoline: TrampolineInfo, forward_msat: u64, payment_state: &mut PaymentState, "
                 "sender: oneshot::Sender<HtlcAcceptedResponse> are declared in the unit; each is forced by its use against an extracted real declaration "
                 "(fee_sufficient(u64,u64), PaymentState::{fail,add_htlc}, TrampolineInfo fields)")
    u.raw("}\n")
