"""unit config: E6 slice of main() (src/main.rs): option conversion and validation."""
import re
from vlib.core import Src, Undecided
from units.lifecycle import common_head

TYPES = {"DefaultIntegerConfigOption": "IntOpt", "FlagConfigOption": "FlagOpt", "DefaultBooleanConfigOption": "BoolOpt"}


def build(u):
    mn = Src.get("main.rs")
    m = Src.get("messages.rs")
    u.drop_async = True
    common_head(u)
    u.env("config_env.rs")
    u.raw("pub mod messages {\nuse super::*;\n")
    u.item(m, "TrampolineRoutingPolicy", "struct")
    u.raw("}\npub use messages::TrampolineRoutingPolicy;\n")
    # E11: option descriptors -> opaque distinct tokens of the same declared type
    k = 0
    for it in mn.index["items"]:
        if it["kind"] == "const" and it["name"].startswith("OPTION_"):
            txt = mn.text(*it["span"])
            mt = re.match(r"const\s+(\w+)\s*:\s*(\w+)", txt)
            if not mt:
                raise Undecided(f"E11: cannot read the declared type of {it['name']}")
            ty = TYPES.get(mt.group(2))
            if ty is None:
                continue   # string options are not part of C19
            k += 1
            u.raw(f"pub const {it['name']}: {ty} = {ty} {{ id: {k} }};   // E11 token for src/main.rs:{mn.line_of(it['span'][0])}\n")
            u._log("E11", mn, it["span"][0], txt[:60], f"opaque token #{k}")
    for c in ["NAME_CLTV_DELTA", "NAME_POLICY_CLTV_DELTA"]:
        u.raw(f"pub const {c}: u8 = 0;   // only used inside an anyhow! message (not evaluated)\n")
    # the provider constructor (contract proved in unit provider) and the manager constructor
    pp = Src.get("payment_provider.rs")
    h = Src.get("htlc_manager.rs")
    u.raw("pub struct Rpc { pub _p: u8 }\npub mod rpc { pub trait ClnRpc {} impl ClnRpc for super::Rpc {} }\n")
    u.raw("pub mod payment_provider {\nuse super::*;\nuse crate::rpc::ClnRpc;\npub trait PaymentProvider {}\n")
    u.item(pp, "PayPaymentProvider", "struct")
    u.spec("provider.rs", shared=True)
    im = pp.find("PayPaymentProvider", "impl")
    u._apply(pp, im["start"], im["open"] + 1, [])
    u.raw("\n")
    u.fn(pp, pp.find_fn_in(im, "new"), "payment_provider::PayPaymentProvider::new", stub=True)
    u.raw("}\nimpl<R: ClnRpc> PaymentProvider for PayPaymentProvider<R> {}\n}\npub use payment_provider::{PayPaymentProvider, PaymentProvider};\n")
    u.env("config_watcher_env.rs")
    u.raw("pub mod email { pub trait NotificationService {} pub struct EmailNotificationService { pub _p: u8 } impl NotificationService for EmailNotificationService {} }\n"
          "pub mod store { pub trait Datastore {} pub struct ClnDatastore { pub _p: u8 } impl Datastore for ClnDatastore {} }\n"
          "pub use block_watcher::{BlockProvider, BlockWatcher, JoinHandle}; pub use email::{NotificationService, EmailNotificationService}; pub use store::{Datastore, ClnDatastore};\n"
          "pub struct GetinfoResponse { pub id: PublicKey }\n")
    u.raw("impl<K, V> HashMap<K, V> { #[verifier::external_body] pub fn new() -> (r: Self) { unimplemented!() } }\n"
          "impl<T> Mutex<T> { #[verifier::external_body] pub fn new(t: T) -> (r: Self) { unimplemented!() } }\n")
    u.raw("pub mod htlc_manager {\nuse super::*;\n")
    u.item(h, "HtlcManager", "struct")
    u.item(h, "HtlcManagerParams", "struct")
    u.raw("pub struct PaymentState { pub _p: u8 }\n")
    u.spec("config_manager.rs")
    u.impl(h, "HtlcManager", ["new"], "htlc_manager")
    u.raw("}\npub use htlc_manager::{HtlcManager, HtlcManagerParams};\n")
    u.spec("config.rs")
    f = mn.find("main", "fn")
    u.slice(mn, f, "main::main#options",
            r"first:^let \w+(: \w+)? = !?cp\.option\(&OPTION_", r"^let payment_provider = Arc::new\(PayPaymentProvider::new\(",
            "fn main__options(cp: &ConfiguredPlugin, rpc: Arc<Rpc>) -> (r: ::std::result::Result<(u16, TrampolineRoutingPolicy, Duration, bool, Arc<PayPaymentProvider<Rpc>>), Error>)",
            tail="Ok((cltv_delta, routing_policy, mpp_timeout, allow_self_route_hints, payment_provider))",
            note="slice main#options: result tuple types are declared in the unit: cltv_delta u16 (forced: compared with the policy field cltv_expiry_delta: u16), "
                 "routing_policy (real struct), mpp_timeout Duration (forced by Duration::from_secs(u64)), payment_provider Arc<PayPaymentProvider<Rpc>> (forced by the real constructor); parameter rpc: Arc<Rpc> declared")
    u.slice(mn, f, "main::main#manager",
            r"^let htlc_manager = Arc::new\(HtlcManager::new\(HtlcManagerParams", r"^let htlc_manager = Arc::new\(HtlcManager::new\(HtlcManagerParams",
            "fn main__manager(rpc: Arc<Rpc>, allow_self_route_hints: bool, block_watcher: Arc<BlockWatcher>, cltv_delta: u16, info: GetinfoResponse, mpp_timeout: Duration, "
            "notification_service: Arc<EmailNotificationService>, payment_provider: Arc<PayPaymentProvider<Rpc>>, routing_policy: TrampolineRoutingPolicy, store: Arc<ClnDatastore>) "
            "-> (r: Arc<HtlcManager<BlockWatcher, EmailNotificationService, PayPaymentProvider<Rpc>, ClnDatastore>>)",
            tail="htlc_manager",
            note="slice main#manager: the wrapper's parameters are the locals the statement reads; their types are declared in the unit and forced by the real HtlcManagerParams field types")
    pl = Src.get("plugin.rs")
    u.raw("pub mod plugin {\nuse super::*;\n")
    u.item(pl, "PluginState", "struct")
    u.spec("config_state.rs")
    u.impl(pl, "PluginState", ["new"], "plugin")
    u.raw("}\npub use plugin::PluginState;\n")
    u.slice(mn, f, "main::main#watcher",
            r"^let mut block_watcher = BlockWatcher::new\(", r"^let block_watcher = Arc::new\(block_watcher\);",
            "fn main__watcher(rpc: Arc<Rpc>) -> (r: ::std::result::Result<(Arc<BlockWatcher>, mpsc::Sender<()>, JoinHandle), Error>)",
            tail="Ok((block_watcher, sender, block_join))",
            note="slice main#watcher: from `let mut block_watcher = BlockWatcher::new(..)` to `let block_watcher = Arc::new(block_watcher);`; "
                 "BlockWatcher is an env mirror (ghost identity + `started`; new/start are proved in unit height), rpc: Arc<Rpc> is declared")
    u.slice(mn, f, "main::main#state",
            r"^let state = PluginState::new\(", r"^let state = PluginState::new\(",
            "fn main__state(rpc: Arc<Rpc>, block_watcher: Arc<BlockWatcher>, htlc_manager: Arc<HtlcManager<BlockWatcher, EmailNotificationService, PayPaymentProvider<Rpc>, ClnDatastore>>) "
            "-> (state: PluginState<PayPaymentProvider<Rpc>>)",
            tail="state",
            note="slice main#state: the statement that builds the hooks' PluginState; its two free variables are declared with the types the real PluginState::new forces")
    u.auto_here(mn, "main")
    u.raw("} // verus!\nfn main() {}\n")
