"""unit config: E6 slice of main() (src/main.rs): option conversion and validation."""
import re
from vlib.core import Src, Undecided
from units.lifecycle import common_head

TYPES = {"DefaultIntegerConfigOption": "IntOpt", "FlagConfigOption": "FlagOpt", "DefaultBooleanConfigOption": "BoolOpt"}


def build(u):
    mn = Src.get("main.rs")
    m = Src.get("messages.rs")
    u.drop_async = True
    common_head(u)
    u.env("config_env.rs")
    u.raw("pub mod messages {\nuse super::*;\n")
    u.item(m, "TrampolineRoutingPolicy", "struct")
    u.raw("}\npub use messages::TrampolineRoutingPolicy;\n")
    # E11: option descriptors -> opaque distinct tokens of the same declared type
    k = 0
    for it in mn.index["items"]:
        if it["kind"] == "const" and it["name"].startswith("OPTION_"):
            txt = mn.text(*it["span"])
            mt = re.match(r"const\s+(\w+)\s*:\s*(\w+)", txt)
            if not mt:
                raise Undecided(f"E11: cannot read the declared type of {it['name']}")
            ty = TYPES.get(mt.group(2))
            if ty is None:
                continue   # string options are not part of C19
            k += 1
            u.raw(f"pub const {it['name']}: {ty} = {ty} {{ id: {k} }};   // E11 token for src/main.rs:{mn.line_of(it['span'][0])}\n")
            u._log("E11", mn, it["span"][0], txt[:60], f"opaque token #{k}")
    for c in ["NAME_CLTV_DELTA", "NAME_POLICY_CLTV_DELTA"]:
        u.raw(f"pub const {c}: u8 = 0;   // only used inside an anyhow! message (not evaluated)\n")
    u.spec("config.rs")
    f = mn.find("main", "fn")
    u.slice(mn, f, "main::main#options",
            r"first:^let \w+(: \w+)? = !?cp\.option\(&OPTION_", r"^let mpp_timeout = Duration::from_secs\(mpp_timeout_secs\);",
            "fn main__options(cp: &ConfiguredPlugin) -> (r: ::std::result::Result<(u16, TrampolineRoutingPolicy, Duration, bool, u64, bool), Error>)",
            tail="Ok((cltv_delta, routing_policy, mpp_timeout, allow_self_route_hints, payment_timeout_secs, xpay))",
            note="slice main#options: result tuple types are declared in the unit: cltv_delta u16 (forced: compared with the policy field cltv_expiry_delta: u16), "
                 "routing_policy (real struct), mpp_timeout Duration (forced by Duration::from_secs(u64)), payment_timeout_secs u64 (NOT forced inside the slice: its only use, "
                 "Duration::from_secs(payment_timeout_secs), is the next statement of main and takes u64), xpay bool")
    u.raw("} // verus!\nfn main() {}\n")
