"""unit handle_gate: the E6 statement slice handle_htlc#gate (the policy gate under the table lock).
Its clauses are ALSO asserted on the whole function in unit handle (same labels); the slice adds
independence from everything outside the gate.  When this unit cannot be built for a changed tree
(slice boundaries moved, new free variables) while unit handle decides the same clauses, its
`undecided` is recorded but does not make the check undecided (props.REDUNDANT)."""
from units import handle


def build(u):
    handle.build(u, slices_only=handle.emit_gate_slice, whole=False)
