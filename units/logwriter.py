"""unit logwriter: start_writer (src/cln_plugin/logging.rs) -- the task that turns log entries into
JSON-RPC `log` notifications on the stdout writer shared with the driver.  The spawned block is the
task's body (E15b: verified in place); lock guards are tracked by E7."""
from vlib.core import Src


def build(u):
    l = Src.get("cln_plugin/logging.rs")
    u.drop_async = True
    u.spawn_inline = True
    u.e7 = True
    u.e7_temps = True
    u.ghost_callees["m:recv"] = "Tracked(w)"
    u.ghost_callees["m:lock"] = "Tracked(w)"
    u.ghost_callees["m:send"] = "Tracked(w)"
    u.raw("use vstd::prelude::*;\nuse ::std::sync::Arc;\nverus! {\n")
    u.env("prelude.rs")
    u.env("std_extra.rs")
    u.canary_decls()
    u.env("anyhow.rs")
    u.env("logwriter_env.rs")
    u.raw("pub mod logging {\nuse super::*;\n")
    u.item(l, "LogEntry", "struct")
    u.item(l, "LogLevel", "enum")
    u.spec("logwriter.rs")
    u.fn(l, l.find("start_writer", "fn"), "cln_plugin::logging::start_writer")
    u.raw("}\n} // verus!\nfn main() {}\n")
    u.slice_assumptions.append("unit logwriter: the block given to tokio::spawn in start_writer is verified in place as the task's body (E15b); "
                               "the writer mutex / FramedWrite / unbounded channel are env models (env/logwriter_env.rs)")
