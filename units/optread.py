"""unit optread: reading an option back -- options::OptionType (trait), its impls for
config_type::{DefaultInteger, DefaultBoolean, Flag} (the kinds of C19's integer/flag options),
ConfigOption::name (src/cln_plugin/options.rs) and ConfiguredPlugin::{option_str, option}
(src/cln_plugin/mod.rs; env mirror of the struct with the real field `option_values`)."""
from vlib.core import Src


def build(u):
    m = Src.get("cln_plugin/mod.rs")
    o = Src.get("cln_plugin/options.rs")
    u.raw("use vstd::prelude::*;\nverus! {\n")
    u.env("prelude.rs")
    u.env("std_extra.rs")
    u.canary_decls()
    u.env("anyhow.rs")
    u.env("optread_env.rs")
    u.raw("pub mod options {\nuse super::*;\n")
    u.item(o, "config_type", "mod")
    u.item(o, "Value", "enum", extra_attr="#[derive(Debug)]   // derive(Debug) of the real enum kept (E1 drops derives); Clone: structural, see specs/optread.rs")
    u.derived(o, "Value", "Clone", "options")
    u.item(o, "ValueType", "enum")
    u.spec("optread.rs")
    u.trait(o, "OptionType", "options")
    for ty in ["DefaultInteger", "DefaultBoolean", "Flag"]:
        u.impl(o, ty, ["convert_default", "from_value", "get_value_type"], "options", trait="OptionType")
    u.item(o, "ConfigOption", "struct")
    u.impl(o, "ConfigOption", ["name", "description"], "options", nth=1)
    u.raw("}\nuse options::OptionType;\n")
    u.spec("optread_plugin.rs")
    u.raw("impl ConfiguredPlugin {   // env mirror: the real impl header carries the stream type parameters\n")
    im = m.find("ConfiguredPlugin", "impl")
    u.fn(m, m.find_fn_in(im, "option_str"), "cln_plugin::ConfiguredPlugin::option_str")
    u.fn(m, m.find_fn_in(im, "option"), "cln_plugin::ConfiguredPlugin::option")
    u.raw("}\n} // verus!\nfn main() {}\n")
