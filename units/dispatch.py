"""unit dispatch: two E6 slices of PluginDriver::dispatch_one (src/cln_plugin/mod.rs): the tails that
start the handler tasks (notification arm; request arm).  dispatch_one is a select! branch future
of run(): after it has read a message, any suspension point would let run() drop the message."""
from vlib.core import Src


def build(u):
    m = Src.get("cln_plugin/mod.rs")
    u.drop_async = True
    u.forbid_await = True
    u.e15 = True
    u.ghost_callees["c:tokio::spawn"] = "Tracked(d)"
    u.raw("use vstd::prelude::*;\nverus! {\n")
    u.env("prelude.rs")
    u.env("std_extra.rs")
    u.canary_decls()
    u.env("anyhow.rs")
    u.env("dispatch_env.rs")
    u.spec("dispatch.rs")
    im = m.find("PluginDriver", "impl")
    f = m.find_fn_in(im, "dispatch_one")
    u.raw("impl<F: Fn(Plugin, Value) -> anyhow::Result<()>> PluginDriver<F> {   // E2: a callback's future is its result\n")
    u.slice(m, f, "cln_plugin::PluginDriver::dispatch_one#notify",
            r"^if let Some\(cb\) = &self\.wildcard_subscription", r"^match self\.subscriptions\.get\(method\)",
            "fn dispatch_one__notify(&self, plugin: &Plugin, params: &Value, method: &str, Tracked(d): Tracked<&mut Disp>)",
            note="slice dispatch_one#notify: from `if let Some(cb) = &self.wildcard_subscription` to the `match self.subscriptions.get(method)`; "
                 "self is an env mirror with the real field names; plugin, params, method are declared in the unit")
    u.slice(m, f, "cln_plugin::PluginDriver::dispatch_one#request_lookup",
            r"first:^let method = request", r"^let params = request[\s\S]*\.clone\(\);",
            "fn dispatch_one__request_lookup<'a>(&'a self, request: &'a Value) -> (r: anyhow::Result<(&'a F, Value)>)",
            tail="Ok((callback, params))",
            note="slice dispatch_one#request_lookup: from `let method = request.get(\"method\")..` to `let params = request.get(\"params\")...clone();` of the "
                 "CustomRequest arm; self is the env mirror (rpcmethods / setconfig_callback are the real field names), request: &serde_json::Value is declared in the unit")
    u.raw("}\n")
    u.slice(m, f, "cln_plugin::PluginDriver::dispatch_one#request_spawn",
            r"after:^let params = request[\s\S]*\.clone\(\);", r"^tokio::spawn\(async move \{(\s|//[^\n]*\n)*(let \w+ = )?match call\.await",
            "fn dispatch_one__request_spawn<F: Fn(Plugin, Value) -> anyhow::Result<Value>>(callback: &F, plugin: &Plugin, params: Value, id: Value, Tracked(d): Tracked<&mut Disp>) -> (r: anyhow::Result<()>)",
            tail="Ok(())",
            note="slice dispatch_one#request_spawn: everything after the `let params = ..clone();` statement up to and including `tokio::spawn(async move {..});` "
                 "(on the pinned tree: `let plugin = plugin.clone(); let call = callback(..); tokio::spawn(..)`) -- "
                 "the async block is the reply path (slice dispatch_one#reply of unit driver); callback, plugin, params, id are declared in the unit")
    u.raw("} // verus!\nfn main() {}\n")
