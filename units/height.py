"""unit height: poll_forever, update_height, poll_height, BlockWatcher::{new, new_block, current_height} (src/block_watcher.rs)."""
from vlib.core import Src
from units.lifecycle import common_head


def build(u):
    bw = Src.get("block_watcher.rs")
    m = Src.get("messages.rs")
    u.drop_async = True
    for g in ["m:lock", "m:try_lock", "c:update_height", "c:poll_height", "m:get_info"]:
        u.ghost_callees[g] = "Tracked(w)"
    common_head(u)
    u.env("height_env.rs")
    u.raw("pub mod messages {\nuse super::*;\n")
    u.item(m, "BlockAdded", "struct")
    u.raw("}\n")
    u.raw("pub mod block_watcher {\nuse super::*;\nuse crate::anyhow::Result;\nuse crate::messages::BlockAdded;\nuse crate::mpsc::Receiver;\nuse crate::JoinHandle;\n")
    u.spec("height.rs")
    u.item(bw, "POLL_INTERVAL", "const")
    u.item(bw, "BlockWatcher", "struct")
    u.ghost_callees["c:poll_forever"] = "Tracked(w), Tracked(p)"
    u.impl(bw, "BlockWatcher", ["new", "start", "new_block"], "block_watcher")
    del u.ghost_callees["c:poll_forever"]
    u.raw("impl BlockWatcher {\n")
    im = bw.find("BlockWatcher", "impl", trait="BlockProvider")
    u.fn(bw, bw.find_fn_in(im, "current_height"), "block_watcher::BlockWatcher::current_height")
    u.raw("}\n")
    u.ghost_callees["c:tokio::time::sleep"] = "Tracked(p)"
    u.free_fn(bw, "poll_forever", "block_watcher")
    del u.ghost_callees["c:tokio::time::sleep"]
    u.free_fn(bw, "poll_height", "block_watcher")
    u.free_fn(bw, "update_height", "block_watcher")
    u.auto_here(bw, "block_watcher")
    u.raw("}\n} // verus!\nfn main() {}\n")
