"""unit fee: TrampolineRoutingPolicy + fee_sufficient (src/messages.rs)."""
from vlib.core import Src

def build(u):
    m = Src.get("messages.rs")
    u.raw("use vstd::prelude::*;\nverus! {\n")
    u.env("prelude.rs")
    u.env("std_extra.rs")
    u.canary_decls()
    u.spec("fee_spec.rs", shared=True)
    u.spec("fee.rs")
    u.raw("pub mod messages {\nuse super::*;\n")
    u.item(m, "TrampolineRoutingPolicy", "struct")
    u.impl(m, "TrampolineRoutingPolicy", ["fee_sufficient"], "messages")
    u.auto_here(m, "messages")
    u.raw("}\n} // verus!\nfn main() {}\n")
