"""unit codec: find_separator, MultiLineCodec::{decode, encode} (src/cln_plugin/codec.rs) verbatim."""
from vlib.core import Src


def build(u):
    c = Src.get("cln_plugin/codec.rs")
    u.raw("#![feature(sized_hierarchy)]\nuse vstd::prelude::*;\nuse vstd::string::StringSliceAdditionalSpecFns;\nverus! {\nglobal size_of usize == 8;\n")
    u.env("prelude.rs")
    u.env("std_extra.rs")
    u.canary_decls()
    u.env("anyhow.rs")
    u.raw('''#[verifier::external_trait_specification]
pub trait ExAsRef<T: core::marker::PointeeSized>: core::marker::PointeeSized {
    type ExternalTraitSpecificationFor: core::convert::AsRef<T>;
    fn as_ref(&self) -> (r: &T)
        ensures r == as_ref_view::<Self, T>(self);
}
pub uninterp spec fn as_ref_view<S: core::marker::PointeeSized, T: core::marker::PointeeSized>(s: &S) -> &T;
''')
    u.env("codec_env.rs")
    u.raw("pub mod cln_plugin { pub mod codec {\nuse super::super::*;\nbroadcast use crate::axiom_bytesmut_len, crate::axiom_str_len;\n")
    u.spec("codec.rs")
    u.item(c, "MultiLineCodec", "struct")
    u.free_fn(c, "find_separator", "cln_plugin::codec")
    u.fn(c, c.find("utf8", "fn"), "cln_plugin::codec::utf8")
    u.impl(c, "MultiLineCodec", ["decode"], "cln_plugin::codec", trait="Decoder")
    u.impl(c, "MultiLineCodec", ["encode"], "cln_plugin::codec", trait="Encoder")
    u.item(c, "JsonCodec", "struct")
    u.impl(c, "JsonCodec", ["encode"], "cln_plugin::codec", trait="Encoder")
    u.impl(c, "JsonCodec", ["decode"], "cln_plugin::codec", trait="Decoder")
    u.item(c, "JsonRpcCodec", "struct")
    u.impl(c, "JsonRpcCodec", ["decode"], "cln_plugin::codec", trait="Decoder")
    u.auto_here(c, "cln_plugin::codec")
    u.raw("} }\n} // verus!\nfn main() {}\n")
