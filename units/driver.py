"""unit driver: E6 slice of PluginDriver::dispatch_one (src/cln_plugin/mod.rs): the body of the task
spawned per request -- what is sent back once the handler has finished."""
from vlib.core import Src


def build(u):
    m = Src.get("cln_plugin/mod.rs")
    u.drop_async = True
    u.ghost_callees["m:send"] = ("Tracked(q)", r"sender\s*$")
    u.ghost_callees["m:try_send"] = ("Tracked(q)", r"sender\s*$")
    u.raw("use vstd::prelude::*;\nverus! {\n")
    u.env("prelude.rs")
    u.env("std_extra.rs")
    u.canary_decls()
    u.env("anyhow.rs")
    u.env("driver_env.rs")
    u.spec("driver.rs")
    im = m.find("PluginDriver", "impl", nth=0)
    f = m.find_fn_in(im, "dispatch_one")
    u.slice(m, f, "cln_plugin::PluginDriver::dispatch_one#reply",
            r"^match call\.await \{", r"^match call\.await \{",
            "fn dispatch_one__reply(call: ::std::result::Result<Value, AnyErr>, plugin: Plugin, id: Value, Tracked(q): Tracked<&mut Seq<Value>>) -> (r: anyhow::Result<()>)",
            note="slice dispatch_one#reply (body of the spawned task): `call` is the finished handler's result (E2: call.await -> call), "
                 "`plugin` an env mirror with the real field name `sender`, `id` the request id; the types are declared in the unit (serde_json::Value is opaque)")
    u.raw("} // verus!\nfn main() {}\n")
