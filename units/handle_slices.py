"""unit handle_slices: the E6 statement slice handle_htlc#prefix (classification prefix with the
no-side-effect clause).  Kept apart from unit handle so that a change that moves the slice
boundaries (exit 2 here) does not block the whole-function verification."""
from units import handle


def build(u):
    handle.build(u, slices_only=handle.emit_prefix_slice, whole=False)
