"""unit handle_slices: the two E6 statement slices of handle_htlc (classification prefix with the
no-side-effect clause; gate under the table lock).  Kept apart from unit handle so that a change
that moves the slice boundaries (exit 2 here) does not block the whole-function verification."""
from units import handle


def build(u):
    handle.build(u, slices_only=handle.emit_slices, whole=False)
