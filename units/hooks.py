"""unit hooks: src/plugin.rs -- on_htlc_accepted and on_block_added (the glue between the plugin
driver and HtlcManager / BlockWatcher); PluginState is the real struct."""
from vlib.core import Src


def build(u):
    p = Src.get("plugin.rs")
    m = Src.get("messages.rs")
    u.drop_async = True
    u.ghost_callees["m:handle_htlc"] = "Tracked(h)"
    u.ghost_callees["m:new_block"] = "Tracked(h)"
    u.raw("use vstd::prelude::*;\nuse ::std::sync::Arc;\nverus! {\n")
    u.env("prelude.rs")
    u.env("std_extra.rs")
    u.canary_decls()
    u.env("anyhow.rs")
    u.env("hooks_env.rs")
    u.raw("pub mod messages2 {\nuse super::*;\n")
    u.item(m, "BlockAddedNotification", "struct")
    u.item(m, "BlockAdded", "struct")
    u.raw("}\n")
    u.raw("pub mod block_watcher {\nuse super::*;\nuse crate::messages2::BlockAdded;\npub struct BlockWatcher { pub _p: u8 }\nimpl BlockWatcher {\n"
          "    /// unit height: new_block applies the height through update_height; here: recorded in the ghost\n"
          "    #[verifier::external_body]\n    pub fn new_block(&self, block: &BlockAdded, Tracked(h): Tracked<&mut HookGhost>)\n"
          "        ensures *final(h) == (HookGhost { told: old(h).told.push(block.height), ..*old(h) })\n    { unimplemented!() }\n}\n}\n")
    u.raw("pub mod plugin {\nuse super::*;\nuse crate::block_watcher::BlockWatcher;\nuse crate::cln_plugin::Plugin;\nuse crate::email::EmailNotificationService;\n"
          "use crate::messages2::BlockAddedNotification;\nuse crate::store::ClnDatastore;\n"
          "use crate::{htlc_manager::HtlcManager, messages::HtlcAcceptedRequest, payment_provider::PaymentProvider};\n")
    u.item(p, "PluginState", "struct")
    u.spec("hooks.rs")
    u.free_fn(p, "on_htlc_accepted", "plugin")
    u.free_fn(p, "on_block_added", "plugin")
    u.auto_here(p, "plugin")
    u.raw("}\n} // verus!\nfn main() {}\n")
