"""unit initopts: E6 slice of Builder::handle_init (src/cln_plugin/mod.rs): the value an option is
given from the `init` message (configured value exactly, declared default when absent, refusal
otherwise); options::Value is the real enum of src/cln_plugin/options.rs."""
from vlib.core import Src


def build(u):
    m = Src.get("cln_plugin/mod.rs")
    o = Src.get("cln_plugin/options.rs")
    u.refusing_unwrap = True     # E17
    u.raw("use vstd::prelude::*;\nverus! {\n")
    u.env("prelude.rs")
    u.env("std_extra.rs")
    u.canary_decls()
    u.env("anyhow.rs")
    u.env("initopts_env.rs")
    u.raw("pub mod options {\nuse super::*;\n")
    u.item(o, "Value", "enum", extra_attr=None)
    u.derived(o, "Value", "Clone", "options")
    u.raw("}\n")
    u.raw("use options::Value as OValue;\nuse serde_json::Value as JValue;\n")
    u.spec("initopts.rs")
    im = [it for it in m._walk(m.index["items"]) if it["kind"] == "impl" and any(f["kind"] == "fn" and f["name"] == "handle_init" for f in it.get("items", []))]
    if len(im) != 1:
        from vlib.core import Undecided
        raise Undecided(f"lost anchor: impl with handle_init resolves to {len(im)} places")
    f = m.find_fn_in(im[0], "handle_init")
    u.slice(m, f, "cln_plugin::Builder::handle_init#value",
            r"^let option_value: Option<options::Value> = match", r"^let option_value: Option<options::Value> = match",
            "fn handle_init__value(json_value: Option<&JValue>, default_value: &Option<options::Value>, name: &String) -> (option_value: Option<options::Value>)",
            tail="option_value",
            note="slice handle_init#value: the `let option_value = match (json_value, default_value) {..};` statement; json_value: Option<&serde_json::Value> "
                 "(result of HashMap::get), default_value: &Option<options::Value> (result of the real accessor default()), name: &String are declared in the unit")
    u.raw("impl Builder {   // env mirror: the real impl header carries the state and stream type parameters\n")
    u.slice(m, f, "cln_plugin::Builder::handle_init#store",
            r"^self\.option_values\.insert\(", r"^self\.option_values\.insert\(",
            "fn handle_init__store(&mut self, name: &String, option_value: Option<options::Value>)",
            note="slice handle_init#store: the `self.option_values.insert(name.to_string(), option_value);` statement; self is an env mirror "
                 "with the real field `option_values`; name: &String (key of the real `options` table) and option_value are declared in the unit")
    u.raw("}\n")
    im2 = [it for it in m._walk(m.index["items"]) if it["kind"] == "impl" and any(f["kind"] == "fn" and f["name"] == "configure" for f in it.get("items", []))]
    if len(im2) != 1:
        from vlib.core import Undecided
        raise Undecided(f"lost anchor: impl with configure resolves to {len(im2)} places")
    g = m.find_fn_in(im2[0], "configure")
    u.raw("impl<SC, NT, OPTS> BuilderHandover<SC, NT, OPTS> {   // env mirror of Builder for the hand-over\n")
    u.slice(m, g, "cln_plugin::Builder::configure#handover",
            r"^Ok\(Some\(ConfiguredPlugin \{", r"^Ok\(Some\(ConfiguredPlugin \{",
            "fn configure__handover<ID, IN, OUT, RM, SUBS, WS, CFG>(self, init_id: ID, input: IN, output: OUT, rpcmethods: RM, "
            "subscriptions: SUBS, all_subscription: WS, configuration: CFG) "
            "-> (r: ::std::result::Result<Option<ConfiguredPlugin<ID, IN, OUT, RM, SC, NT, SUBS, WS, OPTS, CFG>>, AnyErr>)",
            note="slice configure#handover: the tail expression `Ok(Some(ConfiguredPlugin { .. }))` of Builder::configure; Builder and "
                 "ConfiguredPlugin are env mirrors with the real field names (option_values with its real type, the other fields of a "
                 "type parameter each); the locals init_id, input, output, rpcmethods, subscriptions, all_subscription, configuration are declared")
    u.raw("}\n")
    u.raw("} // verus!\nfn main() {}\n")
