"""unit driver_run: PluginDriver::run (src/cln_plugin/mod.rs), the loop that multiplexes reading
requests and writing replies: every reply it takes out of the reply channel is written to stdout,
once and in order, before the next select! round."""
from vlib.core import Src


def build(u):
    m = Src.get("cln_plugin/mod.rs")
    u.drop_async = True
    u.ghost_callees["m:recv"] = "Tracked(t)"
    u.ghost_callees["m:send"] = "Tracked(t)"
    # assumption (listed): dispatch_one is a cancellation-safe select! branch future
    u.cancel_safe_extra = {"dispatch_one"}
    u.raw("use vstd::prelude::*;\nuse ::std::sync::Arc;\nverus! {\n")
    u.env("prelude.rs")
    u.env("std_extra.rs")
    u.canary_decls()
    u.env("anyhow.rs")
    u.env("driver_run_env.rs")
    u.raw("pub mod cln_plugin {\nuse super::*;\nuse crate::anyhow::Result;\n")
    u.spec("driver_run.rs")
    im = m.find("PluginDriver", "impl")
    u._apply(m, im["start"], im["open"] + 1, [])
    u.raw("\n")
    u.fn(m, m.find_fn_in(im, "run"), "cln_plugin::PluginDriver::run")
    u.fn(m, m.find_fn_in(im, "dispatch_one"), "cln_plugin::PluginDriver::dispatch_one", stub=True)
    u.raw("}\n")
    cs = [it for it in m._walk(m.index["items"]) if it["kind"] == "impl" and it.get("qual") == "ConfiguredPlugin"
          and any(f["kind"] == "fn" and f["name"] == "start" for f in it.get("items", []))]
    if len(cs) != 1:
        from vlib.core import Undecided
        raise Undecided(f"lost anchor: impl ConfiguredPlugin with start resolves to {len(cs)} places")
    u.raw("impl<I, O> ConfiguredPlugin<I, O> {\n")
    u.slice(m, m.find_fn_in(cs[0], "start"), "cln_plugin::ConfiguredPlugin::start#io",
            r"^let output = self\.output;", r"^let input\s*=",
            "fn start__io(self) -> (r: (Arc<Mutex<FramedWrite<O, JsonCodec>>>, FramedRead<I, JsonRpcCodec>))",
            tail="(output, input)",
            note="slice start#io: the two statements that take the handshake's writer and reader out of the ConfiguredPlugin; `self` is an env mirror "
                 "of ConfiguredPlugin with the real field names input / output")
    u.raw("}\n")
    u.auto_here(m, "cln_plugin")
    u.raw("}\n} // verus!\nfn main() {}\n")
    u.slice_assumptions.append("unit driver_run: PluginDriver / Plugin are env mirrors with the real field name `plugin` (the real structs hold boxed dyn callbacks); "
                               "dispatch_one enters as a contract-less stub and is ASSUMED cancellation safe as a select! branch future")
