"""unit tlv_dec: ProtoBuf (default methods), FromBytes for SerializedTlvStream, TryFrom<Vec<u8>> (src/tlv.rs)."""
from vlib.core import Src


def build(u):
    t = Src.get("tlv.rs")
    u.raw("#![feature(sized_hierarchy)]\nuse vstd::prelude::*;\nverus! {\n")
    u.raw("global size_of usize == 8;   // assumption (listed): 64-bit target, `as usize` of a u64 is lossless\n")
    u.env("prelude.rs")
    u.env("std_extra.rs")
    u.canary_decls()
    u.env("anyhow.rs")
    u.env("bytes.rs")
    u.spec("tlv_spec.rs", shared=True)
    u.raw("pub mod tlv {\nuse super::*;\nuse crate::bytes::{Buf};\n")
    u.item(t, "TlvEntry", "struct")
    u.item(t, "SerializedTlvStream", "struct")
    u.spec("tlv_dec.rs")
    u.trait(t, "FromBytes", "tlv")
    u.item(t, "CompactSize", "type")
    u.item(t, "TU64", "type")
    tr = t.find("ProtoBuf", "trait")
    u._apply(t, tr["start"], tr["open"] + 1, [])
    u.raw("\n")
    u.fn(t, t.find_fn_in(tr, "get_compact_size"), "tlv::ProtoBuf::get_compact_size")
    u.fn(t, t.find_fn_in(tr, "get_tu64"), "tlv::ProtoBuf::get_tu64", stub=True)
    u.raw("}\n")
    for ty in ["Bytes", "&[]", "Take"]:
        im = t.find(ty, "impl", trait="ProtoBuf")
        u._apply(t, im["start"], im["span"][1], [])
        u.raw("\n")
    u.impl(t, "SerializedTlvStream", ["from_bytes"], "tlv", trait="FromBytes")
    u.impl(t, "SerializedTlvStream", ["try_from"], "tlv", trait="TryFrom")
    u.raw("}\n} // verus!\nfn main() {}\n")
