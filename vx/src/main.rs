//! vx — span indexer for /repo sources.
//!
//! Parses each given Rust file with `syn` and prints a JSON index of byte spans
//! (items, signatures, bodies, attributes, `.await`, calls, macros, closures,
//! loops, statements). It never prints or re-formats code: the Python driver
//! copies byte ranges of the original file and applies the catalogued edits
//! (DESIGN.md §4) at the offsets reported here.
use proc_macro2::{Span, TokenStream};
use serde_json::{json, Value};
use syn::parse::{Parse, ParseStream, Parser};
use syn::punctuated::Punctuated;
use syn::spanned::Spanned;
use syn::visit::{self, Visit};
use syn::{Block, Expr, Pat, Token};

fn br(s: Span) -> (usize, usize) {
    let r = s.byte_range();
    (r.start, r.end)
}
fn sp(s: Span) -> Value {
    let (a, b) = br(s);
    json!([a, b])
}
fn join_span(a: Span, b: Span) -> Value {
    json!([br(a).0, br(b).1])
}
fn path_str(p: &syn::Path) -> String {
    p.segments
        .iter()
        .map(|s| s.ident.to_string())
        .collect::<Vec<_>>()
        .join("::")
}
fn type_name(t: &syn::Type) -> String {
    match t {
        syn::Type::Path(p) => p
            .path
            .segments
            .last()
            .map(|s| s.ident.to_string())
            .unwrap_or_default(),
        syn::Type::Reference(r) => format!("&{}", type_name(&r.elem)),
        syn::Type::Slice(_) => "[]".to_string(),
        _ => "?".to_string(),
    }
}

struct SelectArm {
    pat: Pat,
    fut: Expr,
    body: Expr,
}
struct SelectArms(Vec<SelectArm>);
impl Parse for SelectArms {
    fn parse(input: ParseStream) -> syn::Result<Self> {
        let mut v = vec![];
        while !input.is_empty() {
            let pat = Pat::parse_single(input)?;
            input.parse::<Token![=]>()?;
            let fut: Expr = input.parse()?;
            input.parse::<Token![=>]>()?;
            let body: Expr = input.parse()?;
            let _ = input.parse::<Option<Token![,]>>()?;
            v.push(SelectArm { pat, fut, body });
        }
        Ok(SelectArms(v))
    }
}

struct BodyIndex {
    nodes: Vec<Value>,
    closure_ord: usize,
    loop_ord: usize,
    block_ord: usize,
    block_stack: Vec<usize>,
}

impl BodyIndex {
    fn new() -> Self {
        BodyIndex {
            nodes: vec![],
            closure_ord: 0,
            loop_ord: 0,
            block_ord: 0,
            block_stack: vec![],
        }
    }
    fn push_loop(&mut self, kind: &str, whole: Span, body: &Block) {
        let ord = self.loop_ord;
        self.loop_ord += 1;
        self.nodes.push(json!({"k":"loop","kind":kind,"ord":ord,"span":sp(whole),
            "body_open": br(body.brace_token.span.open()).0,
            "body_close": br(body.brace_token.span.close()).1}));
    }
}

impl<'ast> Visit<'ast> for BodyIndex {
    fn visit_block(&mut self, b: &'ast Block) {
        let id = self.block_ord;
        self.block_ord += 1;
        let parent = self.block_stack.last().copied();
        self.nodes.push(json!({"k":"block","id":id,"parent":parent,"span":sp(b.span()),
            "open": br(b.brace_token.span.open()).0, "close": br(b.brace_token.span.close()).1}));
        for (i, s) in b.stmts.iter().enumerate() {
            let kind = match s {
                syn::Stmt::Local(_) => "let",
                syn::Stmt::Item(_) => "item",
                syn::Stmt::Expr(_, Some(_)) => "expr;",
                syn::Stmt::Expr(_, None) => "expr",
                syn::Stmt::Macro(_) => "macro",
            };
            self.nodes
                .push(json!({"k":"stmt","block":id,"idx":i,"kind":kind,"span":sp(s.span())}));
        }
        self.block_stack.push(id);
        visit::visit_block(self, b);
        self.block_stack.pop();
    }
    fn visit_expr_await(&mut self, e: &'ast syn::ExprAwait) {
        self.nodes.push(json!({"k":"await",
            "span": join_span(e.dot_token.span(), e.await_token.span()),
            "base_end": br(e.base.span()).1}));
        visit::visit_expr_await(self, e);
    }
    fn visit_expr_method_call(&mut self, e: &'ast syn::ExprMethodCall) {
        self.nodes.push(json!({"k":"mcall","name":e.method.to_string(),"span":sp(e.span()),
            "recv": sp(e.receiver.span()),
            "method": sp(e.method.span()),
            "open": br(e.paren_token.span.open()).0,
            "close": br(e.paren_token.span.close()).0,
            "nargs": e.args.len(), "trailing": e.args.trailing_punct(),
            "args": e.args.iter().map(|a| sp(a.span())).collect::<Vec<_>>(),
            "turbofish": e.turbofish.is_some()}));
        visit::visit_expr_method_call(self, e);
    }
    fn visit_expr_call(&mut self, e: &'ast syn::ExprCall) {
        let p = match &*e.func {
            Expr::Path(p) => path_str(&p.path),
            _ => "?".to_string(),
        };
        self.nodes.push(json!({"k":"call","path":p,"span":sp(e.span()),
            "func": sp(e.func.span()),
            "open": br(e.paren_token.span.open()).0,
            "close": br(e.paren_token.span.close()).0,
            "args": e.args.iter().map(|a| sp(a.span())).collect::<Vec<_>>(),
            "nargs": e.args.len(), "trailing": e.args.trailing_punct()}));
        visit::visit_expr_call(self, e);
    }
    fn visit_expr_closure(&mut self, e: &'ast syn::ExprClosure) {
        let ord = self.closure_ord;
        self.closure_ord += 1;
        let inputs: Vec<Value> = e.inputs.iter().map(|p| sp(p.span())).collect();
        self.nodes.push(json!({"k":"closure","ord":ord,"span":sp(e.span()),
            "or1": br(e.or1_token.span()).0, "or2": br(e.or2_token.span()).1,
            "inputs": inputs, "body": sp(e.body.span()),
            "body_is_block": matches!(&*e.body, Expr::Block(_)),
            "has_output": !matches!(e.output, syn::ReturnType::Default)}));
        visit::visit_expr_closure(self, e);
    }
    fn visit_expr_while(&mut self, e: &'ast syn::ExprWhile) {
        let kind = if matches!(&*e.cond, Expr::Let(_)) { "whilelet" } else { "while" };
        self.push_loop(kind, e.span(), &e.body);
        visit::visit_expr_while(self, e);
    }
    fn visit_expr_for_loop(&mut self, e: &'ast syn::ExprForLoop) {
        self.push_loop("for", e.span(), &e.body);
        visit::visit_expr_for_loop(self, e);
    }
    fn visit_expr_loop(&mut self, e: &'ast syn::ExprLoop) {
        self.push_loop("loop", e.span(), &e.body);
        visit::visit_expr_loop(self, e);
    }
    fn visit_expr_try(&mut self, e: &'ast syn::ExprTry) {
        self.nodes.push(json!({"k":"try","pos": br(e.question_token.span()).0,
            "span": sp(e.span())}));
        visit::visit_expr_try(self, e);
    }
    fn visit_expr_binary(&mut self, e: &'ast syn::ExprBinary) {
        let op = match e.op {
            syn::BinOp::Add(_) => "+",
            syn::BinOp::Sub(_) => "-",
            syn::BinOp::Mul(_) => "*",
            syn::BinOp::Div(_) => "/",
            syn::BinOp::Rem(_) => "%",
            syn::BinOp::AddAssign(_) => "+=",
            syn::BinOp::SubAssign(_) => "-=",
            syn::BinOp::MulAssign(_) => "*=",
            _ => "",
        };
        if !op.is_empty() {
            self.nodes.push(json!({"k":"arith","op":op,"span":sp(e.span())}));
        }
        visit::visit_expr_binary(self, e);
    }
    fn visit_expr_index(&mut self, e: &'ast syn::ExprIndex) {
        self.nodes.push(json!({"k":"index","span":sp(e.span())}));
        visit::visit_expr_index(self, e);
    }
    fn visit_expr_continue(&mut self, e: &'ast syn::ExprContinue) {
        self.nodes.push(json!({"k":"continue","span":sp(e.span())}));
        visit::visit_expr_continue(self, e);
    }
    fn visit_expr_break(&mut self, e: &'ast syn::ExprBreak) {
        self.nodes.push(json!({"k":"break","span":sp(e.span())}));
        visit::visit_expr_break(self, e);
    }
    fn visit_expr_return(&mut self, e: &'ast syn::ExprReturn) {
        let ex = e.expr.as_ref().map(|x| sp(x.span()));
        self.nodes.push(json!({"k":"return","span":sp(e.span()),"expr":ex}));
        visit::visit_expr_return(self, e);
    }
    fn visit_expr_async(&mut self, e: &'ast syn::ExprAsync) {
        self.nodes.push(json!({"k":"async","span":sp(e.span()),"block":sp(e.block.span())}));
        visit::visit_expr_async(self, e);
    }
    fn visit_expr_if(&mut self, e: &'ast syn::ExprIf) {
        self.nodes.push(json!({"k":"if","span":sp(e.span()),"then":sp(e.then_branch.span()),
            "has_else": e.else_branch.is_some()}));
        visit::visit_expr_if(self, e);
    }
    fn visit_macro(&mut self, m: &'ast syn::Macro) {
        let p = path_str(&m.path);
        let (open, close) = match &m.delimiter {
            syn::MacroDelimiter::Paren(d) => (br(d.span.open()).0, br(d.span.close()).0),
            syn::MacroDelimiter::Brace(d) => (br(d.span.open()).0, br(d.span.close()).0),
            syn::MacroDelimiter::Bracket(d) => (br(d.span.open()).0, br(d.span.close()).0),
        };
        let whole = json!([br(m.path.span()).0, close + 1]);
        let mut node = json!({"k":"macro","path":p,"span":whole,"open":open,"close":close});
        let last = m.path.segments.last().map(|s| s.ident.to_string()).unwrap_or_default();
        if last == "select" {
            if let Ok(arms) = syn::parse2::<SelectArms>(m.tokens.clone()) {
                let mut v = vec![];
                for a in &arms.0 {
                    v.push(json!({"pat":sp(a.pat.span()),"fut":sp(a.fut.span()),
                        "body":sp(a.body.span()),
                        "body_is_block": matches!(&a.body, Expr::Block(_))}));
                }
                node["arms"] = json!(v);
                self.nodes.push(node);
                for a in &arms.0 {
                    self.visit_expr(&a.fut);
                    self.visit_expr(&a.body);
                }
                return;
            }
        } else if last == "join" {
            let parser = Punctuated::<Expr, Token![,]>::parse_terminated;
            if let Ok(args) = parser.parse2(m.tokens.clone()) {
                let v: Vec<Value> = args.iter().map(|a| sp(a.span())).collect();
                node["args"] = json!(v);
                self.nodes.push(node);
                for a in args.iter() {
                    self.visit_expr(a);
                }
                return;
            }
        } else if last == "vec" || last == "matches" || last == "assert" || last == "assert_eq" {
            // visit argument expressions where they parse as a list
            let parser = Punctuated::<Expr, Token![,]>::parse_terminated;
            if let Ok(args) = parser.parse2(m.tokens.clone()) {
                self.nodes.push(node);
                for a in args.iter() {
                    self.visit_expr(a);
                }
                return;
            }
        }
        self.nodes.push(node);
    }
}

struct AttrIndex {
    attrs: Vec<Value>,
}
impl<'ast> Visit<'ast> for AttrIndex {
    fn visit_attribute(&mut self, a: &'ast syn::Attribute) {
        self.attrs
            .push(json!({"name": path_str(a.path()), "span": sp(a.span())}));
    }
}

fn sig_json(sig: &syn::Signature) -> Value {
    let output = match &sig.output {
        syn::ReturnType::Default => Value::Null,
        syn::ReturnType::Type(_, t) => sp(t.span()),
    };
    let inputs: Vec<Value> = sig
        .inputs
        .iter()
        .map(|a| match a {
            syn::FnArg::Receiver(r) => json!({"self":true,"span":sp(r.span())}),
            syn::FnArg::Typed(t) => json!({"self":false,"span":sp(t.span()),
                "pat":sp(t.pat.span()),"ty":sp(t.ty.span())}),
        })
        .collect();
    json!({
        "async": sig.asyncness.map(|a| sp(a.span())),
        "fn": br(sig.fn_token.span()).0,
        "ident": sp(sig.ident.span()),
        "paren_open": br(sig.paren_token.span.open()).0,
        "paren_close": br(sig.paren_token.span.close()).0,
        "ninputs": sig.inputs.len(),
        "inputs_trailing": sig.inputs.trailing_punct(),
        "inputs": inputs,
        "output": output,
        "where": sig.generics.where_clause.as_ref().map(|w| sp(w.span())),
        "generics": if sig.generics.lt_token.is_some() { sp(sig.generics.span()) } else { Value::Null },
    })
}

fn fn_json(
    name: String,
    qual: String,
    whole: Span,
    attrs: &[syn::Attribute],
    vis: &syn::Visibility,
    sig: &syn::Signature,
    block: Option<&Block>,
    semi: Option<Span>,
) -> Value {
    let mut bi = BodyIndex::new();
    if let Some(b) = block {
        bi.visit_block(b);
    }
    let start_after_attrs = match vis {
        syn::Visibility::Inherited => sig
            .constness
            .map(|c| br(c.span()).0)
            .or(sig.asyncness.map(|a| br(a.span()).0))
            .or(sig.unsafety.map(|u| br(u.span()).0))
            .unwrap_or(br(sig.fn_token.span()).0),
        v => br(v.span()).0,
    };
    json!({"kind":"fn","name":name,"qual":qual,"span":sp(whole),
        "attrs": attrs.iter().map(|a| json!({"name":path_str(a.path()),"span":sp(a.span())})).collect::<Vec<_>>(),
        "start": start_after_attrs,
        "sig": sig_json(sig),
        "body": block.map(|b| sp(b.span())),
        "semi": semi.map(|s| br(s).0),
        "nodes": bi.nodes})
}

fn items_json(items: &[syn::Item], prefix: &str) -> Vec<Value> {
    let mut out = vec![];
    for it in items {
        match it {
            syn::Item::Fn(f) => {
                let n = f.sig.ident.to_string();
                out.push(fn_json(
                    n.clone(),
                    format!("{}{}", prefix, n),
                    f.span(),
                    &f.attrs,
                    &f.vis,
                    &f.sig,
                    Some(&f.block),
                    None,
                ));
            }
            syn::Item::Struct(s) => {
                out.push(json!({"kind":"struct","name":s.ident.to_string(),
                    "qual":format!("{}{}",prefix,s.ident),"span":sp(s.span())}));
            }
            syn::Item::Enum(s) => {
                out.push(json!({"kind":"enum","name":s.ident.to_string(),
                    "qual":format!("{}{}",prefix,s.ident),"span":sp(s.span())}));
            }
            syn::Item::Const(s) => {
                out.push(json!({"kind":"const","name":s.ident.to_string(),
                    "qual":format!("{}{}",prefix,s.ident),"span":sp(s.span())}));
            }
            syn::Item::Type(s) => {
                out.push(json!({"kind":"type","name":s.ident.to_string(),
                    "qual":format!("{}{}",prefix,s.ident),"span":sp(s.span())}));
            }
            syn::Item::Use(s) => {
                out.push(json!({"kind":"use","name":"","qual":"","span":sp(s.span())}));
            }
            syn::Item::Trait(t) => {
                let mut sub = vec![];
                for ti in &t.items {
                    if let syn::TraitItem::Fn(f) = ti {
                        let n = f.sig.ident.to_string();
                        sub.push(fn_json(
                            n.clone(),
                            format!("{}{}::{}", prefix, t.ident, n),
                            f.span(),
                            &f.attrs,
                            &syn::Visibility::Inherited,
                            &f.sig,
                            f.default.as_ref(),
                            f.semi_token.map(|s| s.span()),
                        ));
                    } else {
                        sub.push(json!({"kind":"other","span":sp(ti.span())}));
                    }
                }
                let tstart = match &t.vis {
                    syn::Visibility::Inherited => br(t.trait_token.span()).0,
                    v => br(v.span()).0,
                };
                out.push(json!({"kind":"trait","name":t.ident.to_string(),
                    "qual":format!("{}{}",prefix,t.ident),"span":sp(t.span()),
                    "start": tstart,
                    "open": br(t.brace_token.span.open()).0,
                    "close": br(t.brace_token.span.close()).0,
                    "items":sub}));
            }
            syn::Item::Impl(im) => {
                let st = type_name(&im.self_ty);
                let tr = im.trait_.as_ref().map(|(_, p, _)| {
                    p.segments.last().map(|s| s.ident.to_string()).unwrap_or_default()
                });
                let mut sub = vec![];
                for ii in &im.items {
                    match ii {
                        syn::ImplItem::Fn(f) => {
                            let n = f.sig.ident.to_string();
                            sub.push(fn_json(
                                n.clone(),
                                format!("{}{}::{}", prefix, st, n),
                                f.span(),
                                &f.attrs,
                                &f.vis,
                                &f.sig,
                                Some(&f.block),
                                None,
                            ));
                        }
                        other => sub.push(json!({"kind":"other","span":sp(other.span())})),
                    }
                }
                let impl_start = im
                    .unsafety
                    .map(|u| br(u.span()).0)
                    .unwrap_or(br(im.impl_token.span()).0);
                out.push(json!({"kind":"impl","name":st,"trait":tr,
                    "qual":format!("{}{}",prefix,st),"span":sp(im.span()),
                    "start": impl_start,
                    "open": br(im.brace_token.span.open()).0,
                    "close": br(im.brace_token.span.close()).0,
                    "items":sub}));
            }
            syn::Item::Mod(m) => {
                if let Some((_, its)) = &m.content {
                    let sub = items_json(its, &format!("{}{}::", prefix, m.ident));
                    out.push(json!({"kind":"mod","name":m.ident.to_string(),
                        "qual":format!("{}{}",prefix,m.ident),"span":sp(m.span()),"items":sub}));
                } else {
                    out.push(json!({"kind":"moddecl","name":m.ident.to_string(),"qual":"","span":sp(m.span())}));
                }
            }
            syn::Item::Macro(m) => {
                out.push(json!({"kind":"macro_item","name":path_str(&m.mac.path),"qual":"","span":sp(m.span())}));
            }
            other => out.push(json!({"kind":"other","name":"","qual":"","span":sp(other.span())})),
        }
    }
    out
}

fn main() {
    let mut res = serde_json::Map::new();
    for path in std::env::args().skip(1) {
        let src = match std::fs::read_to_string(&path) {
            Ok(s) => s,
            Err(e) => {
                eprintln!("vx: cannot read {}: {}", path, e);
                std::process::exit(2);
            }
        };
        let ts: TokenStream = match src.parse() {
            Ok(t) => t,
            Err(e) => {
                eprintln!("vx: lex error in {}: {}", path, e);
                std::process::exit(2);
            }
        };
        let file: syn::File = match syn::parse2(ts) {
            Ok(f) => f,
            Err(e) => {
                eprintln!("vx: parse error in {}: {}", path, e);
                std::process::exit(2);
            }
        };
        let mut ai = AttrIndex { attrs: vec![] };
        ai.visit_file(&file);
        res.insert(
            path.clone(),
            json!({"len": src.len(), "items": items_json(&file.items, ""), "attrs": ai.attrs}),
        );
    }
    println!("{}", serde_json::to_string(&Value::Object(res)).unwrap());
}
