"""Property -> units table: which real functions are put under contract for which property,
what the level of the claim is and what stays assumed.  MANIFEST.json is generated from this."""

TB_COMMON = "Verus 0.2026.09.13 + bundled Z3; vx extraction edits E1-E8 (DESIGN.md section 4); every env/ and specs/ item listed in evidence.coverage.trusted_base (external_body / assume_specification / uninterp / axiom), found by a mechanical scan on every run."
A_WORLD = [
    "rely of env/world.rs describes CLN and tokio faithfully: in the Exclusive phase nobody else writes datastore keys of the hash, parts only resolve unless our pay command runs, a completed part stays completed; in the Released phase another lifecycle keeps the durable invariant, every write of the state key bumps its generation, and it starts parts only after its own Pending write",
    "at most one Exclusive lifecycle per hash: handle_htlc's entry().or_insert_with(..tokio::spawn..) (src/htlc_manager.rs:121-138) is outside Verus' subset and is assumed",
    "E2: every awaited call runs to completion as one call; what other tasks do meanwhile is the rely-closure in each callee contract (valid because every future is awaited immediately in these functions)",
    "E3: tokio::select! is a demonic choice of exactly one arm; unselected futures (sleep, recv) are cancel-safe",
    "SHA-256 is collision free and the node reports payment_preimage only for parts whose preimage it verified (preimage_of is uninterpreted)",
    "serde_json round trip of PersistPaymentState (de_state is uninterpreted, with ser/de axioms in env/cln_rpc.rs)",
    "system clock is not before 1970 (duration_since(UNIX_EPOCH) is Ok)",
]

LIFE_NOTE = ("Trusted: " + TB_COMMON + " Interface contracts of specs/iface.rs are assumed at the call sites in payment_lifecycle and proved on the implementations in units store/provider/height where stated in evidence; "
             "ghost world/rely/invariant argument of DESIGN.md section 6 (interleavings and crash points are covered through the rely and the inductive durable invariant, not enumerated).")


def P(units, text, note, **kw):
    d = {"units": units, "level": "proof", "level_text": text, "level_note": note}
    d.update(kw)
    return d


PROPS = {
    "C01": P(["lifecycle", "handle", "handle_slices", "handle_gate", "provider", "store", "waitpay", "paystate", "rpc", "hooks"],
             "Proof (Verus, unbounded) on payment_lifecycle/resolve as extracted from src/htlc_manager.rs: every Resolve answer carries a key that is the preimage of a completed outgoing part of this hash or of its durable Succeeded record (hence preimage_of(hash)); the pay request carries the invoice and hash of this lifecycle.",
             LIFE_NOTE, assumptions=A_WORLD,
             not_covered=["CLN's own verification of the key", "SHA-256 itself (preimage_of is uninterpreted)"]),
    "C02": P(["lifecycle", "store", "provider", "handle", "handle_slices", "handle_gate", "waitpay", "paystate", "rpc", "hooks"],
             "Proof (Verus, unbounded): at each of the ten resolve(..) call sites of payment_lifecycle a Fail answer requires !live(w) && !pay_running in the ghost world, starting from ANY world that satisfies only the durable invariant (every restart image), under the rely (every interleaving). Known finding F-C02-a (read error of the stored state) is reported per call site.",
             LIFE_NOTE, assumptions=A_WORLD,
             not_covered=["that CLN's pay is not still running after a plugin-only restart (not observable through the RPCs used)"]),
    "C03": P(["lifecycle", "fee", "paystate", "provider", "waitpay", "handle", "handle_slices", "handle_gate", "rpc"],
             "Proof (Verus): the single pay call site requires fee_rhs(policy, amount) <= held total, max_fee <= held total (as read at initiation) - amount, the amount rule, the invoice of this hash, and that the counted HTLCs are still unanswered.",
             LIFE_NOTE, assumptions=A_WORLD + ["sum of simultaneously held HTLC amounts < 2^64 msat"]),
    "C04": P(["lifecycle", "handle", "handle_slices", "handle_gate", "provider", "height", "paystate", "config"],
             "Proof (Verus): at the pay call site max_cltv_delta <= max(0, min expiry of the HTLCs held at initiation - height returned by current_height() - cltv_delta) and <= policy delta; the arithmetic of src/htlc_manager.rs:576-583 is verified in place.",
             LIFE_NOTE, assumptions=A_WORLD),
    "C05": P(["lifecycle", "store", "provider", "waitpay", "rpc"],
             "Proof (Verus): pay requires !live(w) && !pay_running; a Succeeded record is never followed by add_payment_attempt/pay; add_payment_attempt never overwrites a Succeeded record; the Free write of mark_failed is generation guarded (Released-phase rely).",
             LIFE_NOTE, assumptions=A_WORLD),
    "C06": P(["lifecycle", "fee", "paystate", "tlv_dec", "handle", "handle_slices", "handle_gate", "store", "provider", "waitpay", "height", "tlv_enc", "tlv_get", "hooks", "dispatch", "driver", "driver_run"],
             "Proof of the safety half (Verus): every normal return of payment_lifecycle has answered exactly once (resolve requires not yet released, lifecycle ensures released); no reachable panic in the functions under contract (unwrap/expect/todo!/overflow/index are obligations). Known finding F-C06-a (todo! reachable). Liveness clauses are not applicable to this technique (level_note).",
             LIFE_NOTE + " NOT APPLICABLE clauses: 'eventually', 'no later than one MPP timeout', deadlock freedom (liveness / scheduler fairness).",
             assumptions=A_WORLD),
    "C07": P(["paystate", "lifecycle", "handle", "handle_slices", "handle_gate"],
             "Proof (Verus, unbounded loop invariant): PaymentState::resolve gives every held listener exactly the one response and records it for late HTLCs; add_htlc never signals readiness once failure was requested; fail() is first-wins and only carries Fail; lifecycle resolves exactly once.",
             LIFE_NOTE + " oneshot::Sender::send is linear, so the prophecy `fate` is sound.", assumptions=A_WORLD,
             not_covered=["a rejecting HTLC arriving after readiness was signalled is by design ignored (statement says still-incomplete set)"]),
    "C08": P(["lifecycle", "store", "provider", "waitpay", "rpc"],
             "Proof (Verus): durable invariant inv(w) (live or pay running => record Pending|Succeeded; Succeeded holds preimage_of(hash)) is preserved by every atomic step of payment_lifecycle: pay requires a durable Pending; mark_failed requires (generation still matches => nothing live); mark_succeeded requires the preimage of a completed part; rely steps preserve inv (lemma_rely_preserves_inv). Every prefix of every execution therefore satisfies inv.",
             LIFE_NOTE, assumptions=A_WORLD, not_covered=["durability of CLN's datastore itself"]),
    "C09": P(["lifecycle", "store", "rpc", "waitpay"],
             "Proof (Verus) on the lifecycle side: started from any durable image, a Succeeded record is replayed; recovery writes are required to succeed absent faults by the store interface contract.",
             LIFE_NOTE, assumptions=A_WORLD, not_covered=["'eventually retried' is the sender's behaviour"]),
    "C11": P(["lifecycle", "paystate", "config"],
             "Proof of the lower bound (Verus): a temporary_trampoline_failure produced with no attempt and no policy rejection implies now >= wait_started + mpp_timeout; every sleep is at most one mpp_timeout; timer/zero-time branches return without add_payment_attempt/pay; readiness is signalled only when the amounts actually received cover amount + fee (unit paystate), so an incomplete set never starts a payment. The upper bound is not applicable (timer/scheduler latency).",
             LIFE_NOTE + " NOT APPLICABLE clause: the upper bound on the failure time.", assumptions=A_WORLD),
    "C12": dict(P(["fee", "handle", "handle_slices", "handle_gate", "paystate", "lifecycle", "config"],
             "Proof (Verus, unbounded): fee_sufficient as extracted from src/messages.rs satisfies the exact integer predicate of the statement for all u64 x u64 x u32 x u32 outside the region of known finding F-C12-a, never answers true when the exact predicate is false anywhere, and has no overflow/panic. One proof covers checked and wrapping builds because no overflow occurs. Third clause: the gate of handle_htlc requests the policy-carrying failure for a too-low declared total / relative expiry (unit handle_slices), PaymentState::fail keeps the first requested failure (unit paystate), and payment_lifecycle answers the set with exactly the failure it took out of the fail channel (unit lifecycle, ghost fail_received).",
             "Trusted: " + TB_COMMON + " vstd specs of checked_mul/checked_add. Known finding F-C12-a (amount*ppm >= 2^64 answers false) is excluded by region and reported as KNOWN-FINDING.",
             assumptions=[]),
        kani=[
            {"harness": "encode_policy_exact", "obligation": "failmsg::messages::HtlcFailReason::encode::kani#policy_layout", "fn": "messages::HtlcFailReason::encode"},
            {"harness": "encode_constants_exact", "obligation": "failmsg::messages::HtlcFailReason::encode::kani#constant_failures", "fn": "messages::HtlcFailReason::encode"},
            {"harness": "fee_sufficient_no_panic", "timeout": 300, "obligation": "fee::messages::TrampolineRoutingPolicy::fee_sufficient::kani#no_panic", "fn": "messages::TrampolineRoutingPolicy::fee_sufficient"},
            {"harness": "fee_sufficient_exact_outside_mul_overflow_region", "role": "witness", "tier": "thorough", "timeout": 240,
             "when_fails": "fee::messages::TrampolineRoutingPolicy::fee_sufficient::ensures#exact_outside_mul_overflow_region", "obligation": "fee::messages::TrampolineRoutingPolicy::fee_sufficient::kani#exact_outside_mul_overflow_region", "fn": "messages::TrampolineRoutingPolicy::fee_sufficient"},
            {"harness": "fee_sufficient_exact_inside_mul_overflow_region", "role": "witness", "tier": "thorough", "timeout": 300, "obligation": "fee::messages::TrampolineRoutingPolicy::fee_sufficient::kani#exact_inside_mul_overflow_region", "fn": "messages::TrampolineRoutingPolicy::fee_sufficient"},
        ], kani_quick=True),
    "C14": P(["lifecycle", "store", "paystate", "handle", "handle_slices", "handle_gate", "rpc"],
             "Proof of the two mechanisms (Verus): no RPC / channel wait / timer is started while the table lock is held (every such env call requires !lock_held; lock scope by ghost unlock marker E7). The scheduling statement itself is not applicable.",
             LIFE_NOTE + " NOT APPLICABLE clause: 'a frozen RPC of A does not delay B' (liveness of tokio's scheduler).", assumptions=A_WORLD),
}

HANDLE_NOTE = ("Trusted: " + TB_COMMON + " env/invoice.rs (utf-8, str::parse, lightning_invoice accessors: parse_any/sig_ok/hash/amount/payee/route_hints are uninterpreted views of the dependency), "
               "env/bytes.rs; SerializedTlvStream::{get,remove,from_bytes,to_bytes,get_tu64} enter under their interface contracts (proved in units tlv_get/tlv_dec/tlv_enc where stated; get/remove are proved on their real bodies against env/vec_model.rs, the std Vec/slice-iterator model). "
               "handle_htlc is verified whole (closure body verbatim; payment_lifecycle enters as a contract-less stub, so the spawn is a hand-over that is not under contract) and additionally as two E6 statement slices (classification prefix with the no-side-effect clause, gate under the lock). Assumed: every table entry satisfies the representation invariant (entries are only created by PaymentState::new and changed by add_htlc/fail/resolve); a listener handed to add_htlc is eventually answered (liveness).")
TU64_KANI = {"harness": "tu64_decodes_exactly", "flags": ["-Z", "stubbing"], "timeout": 900,
      "obligation": "tlv::tlv::ProtoBuf::get_tu64::kani#tu64", "fn": "tlv::ProtoBuf::get_tu64",
      "scope": "every content of every field of 0..=9 bytes (the lengths the statement quantifies over; unwinding assertions on); alloc::fmt::format and Backtrace::capture are stubbed (text of the error message / backtrace of the anyhow error are irrelevant)"}
PROPS["C10"] = dict(P(["handle", "handle_slices", "handle_gate", "tlv_dec", "tlv_get", "config"],
    "Proof (Verus): extract_trampoline_info/check_htlc verbatim: Trampoline(t) only if the metadata decodes, carries record 33001 whose utf-8 text parses to t.invoice, signature valid, invoice hash == HTLC hash, payee = signing key, amount rule (invoice amount, agreeing well-formed amount field; else exactly the declared amount), policy = configured; self-route-hint gate including the not-found half of the search (E8 closure contracts + env find).",
    HANDLE_NOTE, assumptions=["lightning_invoice parse/check_signature/get_payee_pub_key/route_hints behave as their uninterpreted views", "std iter().find returns the first match or None if no element matches (env HintIter::find)"],
    bounded=["get_tu64 (Kani harness tu64_decodes_exactly): BOUNDED in the field length (0..=9 bytes, unwinding assertions on), full domain in the content of the field; an additional check that yields concrete counterexamples -- the clause itself is proved for every length by Verus on the real body (unit tlv_dec), and only that proof is counted"]), kani=[TU64_KANI], kani_quick=True)
PROPS["C13"] = P(["handle", "handle_slices", "handle_gate", "tlv_enc", "tlv_dec", "tlv_get", "hooks"],
    "Proof (Verus): the classification prefix of handle_htlc returns Continue (payload None, or the input records minus the first type-16 record, byte for byte and in order) or the self-hint Fail, with the ghost world unchanged (no RPC, no table access) on every path; check_htlc/default_response verbatim.",
    HANDLE_NOTE, assumptions=["std Vec / slice iteration semantics of env/vec_model.rs (find/position return the first match; Vec::remove removes exactly that element) under which get/remove are proved in unit tlv_get"])

PROPS["C15"] = P(["waitpay", "rpc"],
    "Proof (Verus, unbounded loop invariants): PayPaymentProvider::wait_payment verbatim against a node model with per-part sets: Ok(Some(p)) only if p is the preimage of a completed part; Ok(None) only if at return no part of the hash is pending or complete, for every number of parts, every order in which the waitsendpay results are consumed (FuturesUnordered is demonic), parts resolving at any time between the RPCs (node rely), and every error code (202/203/204/208/209 do not end the wait). On the pinned tree the clause no_part_completed_unseen_between_the_two_listings failed for the join! of the two listings (D5, fixed).",
    "Trusted: " + TB_COMMON + " env/waitpay_env.rs: listsendpays returns a snapshot of the parts with the requested status taken when the node serves the call; waitsendpay returns when its part is no longer pending; parts only resolve while no pay command runs; env models of iter().filter_map().next(), by-value iteration (vstd IteratorSpecImpl) and FuturesUnordered (under E2 the pushed calls have run; next() returns results in arbitrary order -- sound for this function because its postconditions are stable under the rely). The ghost is unit-local (Node with part sets); the World-based interface contract of wait_payment used by units provider/lifecycle states the same two clauses over the summary fields (pending count / complete).",
    assumptions=["no pay command for the hash is running while wait_payment runs (its callers establish this)", "CLN lists every part of the hash with the requested status"])

PROPS["C16"] = P(["provider", "waitpay", "rpc"],
    "Proof (Verus): PayPaymentProvider::pay verbatim against the node model of env/cln_pay.rs (COMPLETE => preimage of a completed part; FAILED without partial-completion warning => nothing live; PENDING / FAILED+warning / RPC error => nothing known) and wait_payment's contract: Ok(p) only with the preimage of a completed part; Err only when nothing is pending or complete -- except at the three exits of known finding F-C16-a. The PayRequest handed to the node carries maxfee/maxdelay/amount/bolt11 verbatim and no other fee knob (C03/C04).",
    "Trusted: " + TB_COMMON + " env/cln_pay.rs (pay status semantics; a pay RPC that has returned creates no further parts); wait_payment enters under its interface contract (C15).",
    assumptions=A_WORLD + ["a pay command that has returned (result or RPC error) creates no further parts"])

PROPS["C17"] = P(["codec", "driver", "driver_run", "dispatch", "logwriter"],
    "Proof of the codec half (Verus): MultiLineCodec::decode and find_separator verbatim: without a blank-line separator decode returns Ok(None) and leaves the buffer untouched; otherwise it consumes exactly the bytes up to and including the FIRST separator and returns the UTF-8 text before it (Err iff not UTF-8), no index/overflow panic. JsonCodec::{decode, encode} and JsonRpcCodec::decode on top of it: each frame is consumed exactly once and yields the value / message its text parses to (serde_json parsing is an uninterpreted partial function), a malformed frame is an error or nothing but never a made-up value; encode appends the rendering of exactly one value followed by the separator. Lemmas: appending bytes never moves the first separator (chunking independence), and a split inside the separator is found once both bytes are present. Reply path (E6 slice of PluginDriver::dispatch_one, the body of the task spawned per request): once the handler has finished exactly one reply carrying that request's id is handed to the writer queue (send waits for room), the result on success and the error object otherwise. Writer loop: PluginDriver::run (whole function, E3 on its select!, loop invariant) writes every reply it takes out of the reply channel to stdout, once and in order, before the next round. Log writer task: start_writer (src/cln_plugin/logging.rs, whole function; the block it spawns is verified in place, E15b; guards tracked by E7) writes through the writer it shares with the driver, takes the lock once per log entry and never holds it while waiting for the next entry (a held lock would keep every reply from being written). Everything else in C17 is not applicable.",
    "Trusted: " + TB_COMMON + " env/codec_env.rs: BytesMut (split_to, range index, len), and the std semantics of iter().zip(iter().skip(1)).position(pred) (first index whose pair satisfies the predicate) as an env iterator model; the predicate closure itself is checked (E8). utf8() is proved on its real body (std str::from_utf8 assumed: succeeds exactly on UTF-8 byte strings, with the text they encode); encode() is verified against vstd's UTF-8 view of str (spec_bytes): the frame written is the text's bytes followed by exactly \"\\n\\n\". "
    "env/driver_env.rs: tokio mpsc send/try_send, the two json! reply shapes as opaque constructors. NOT APPLICABLE clauses: FramedRead's read loop (tokio-util), that every request reaches dispatch_one and its task is spawned (boxed callbacks, tokio::spawn), non-interleaved concurrent writes (tokio::spawn'ed boxed callbacks, json!, FramedWrite behind a mutex), JSON well-formedness (serde_json).",
    assumptions=["tokio-util FramedRead appends the bytes read and calls decode until it returns None", "std slice iteration semantics (env model)"],
    not_covered=["JsonRpc::deserialize (request / notification classification by the `id` member: serde glue around a derive inside the function)", "dispatch_one outside its four slices -- lookup of method / handler / params of a request, reply path, and the two tails that start the handler tasks (no suspension point after the message was read; each handler started exactly once as a task of its own) -- i.e. the match on the message kind and the notification arm's member lookup (src/cln_plugin/mod.rs), and the cancellation of partially executed select! branch futures: PluginDriver::run is verified with every branch future as one atomic, cancellation-safe call (E3 refuses anything else: exit 2), dispatch_one being ASSUMED cancellation safe"])

PROPS["C19"] = P(["config", "provider", "initopts", "optread"],
    "Proof (Verus) on two E6 slices of main() (src/main.rs): (a) from the first cp.option(..) to the construction of the payment provider, (b) the statement that builds HtlcManager::new(HtlcManagerParams{..}): it refuses to start iff a value is out of its target range or policy delta <= safety delta; (c) the statement of Builder::handle_init (src/cln_plugin/mod.rs) that turns the `init` message's JSON value into the option's value: the configured string/integer/bool exactly, the declared default when absent, no normal return for any other JSON type; otherwise safety delta, advertised/enforced policy, MPP timeout, self-route-hint flag, payment timeout and xpay equal the configured values (options are distinct opaque tokens, so a swapped option is a failed obligation). PayPaymentProvider::new caps the retry time at 65535 s. (d) unit optread: the statement of handle_init that stores the value (under exactly the option's own name, other entries untouched), ConfiguredPlugin::option / option_str (the value stored under the option's own name, read through the option's own OptionType::from_value; an unregistered name is an error), and the OptionType impls of the integer / boolean / flag kinds (from_value returns exactly the stored integer / boolean or does not return; declared defaults are offered unchanged).",
    "Trusted: " + TB_COMMON + " env/config_env.rs (ConfiguredPlugin::option returns the value CLN delivered: uninterpreted cfg_*; E11: option descriptors become opaque distinct tokens, name/default/description dropped). HtlcManager::new is verified to store the parameters as given; PayPaymentProvider::new enters under its contract (proved in unit provider). The statements of main() between the two slices (block watcher start, store, e-mail service) are not under contract; that the locals flowing from slice (a) into slice (b) are the same is plain data flow of main() (no reassignment), checked by rustc's immutability (the locals are not `mut`).",
    assumptions=["Builder::configure calls handle_init before it builds the ConfiguredPlugin (the hand-over of `option_values` itself is proved: slice configure#handover; the statements of configure in front of it -- getmanifest / init handshake -- are not under contract); std HashMap insert/get semantics (env model)"],
    not_covered=["statements of main() outside its four slices (options, watcher, manager, state): the e-mail service, the store constructor, cp.start / join"])

PROPS["C20"] = P(["height", "rpc", "hooks", "dispatch"],
    "Proof (Verus): update_height leaves the shared cell at max(value found under the lock, new height) = the maximum of all heights told so far, never lower than before; new_block, poll_height and current_height reach the cell only through update_height / a read under the same mutex. Holds under every interleaving because the update is one critical section and every other updater guarantees the same postcondition. Catch-up clause in its safety form: the polling task poll_forever (verbatim, E3 on its select!, loop invariant) never asks the timer for a wait longer than the declared POLL_INTERVAL and starts a new wait only when every earlier wake-up was followed by a poll_height call (failed polls included); a successful poll leaves the height at least at what the node reported. That the timer fires and the task is scheduled in time is not applicable.",
    "Trusted: " + TB_COMMON + " env/height_env.rs (tokio Mutex<u32>: exclusive access; other holders only run update_height). env timer/shutdown channel of poll_forever with ghost wake-up counters (PollGhost). POLL_INTERVAL enters by E13 (exec const + reflection contract). NOT APPLICABLE part of the catch-up clause: that tokio's timer fires on time and the task gets scheduled (liveness); start()'s spawn of poll_forever is not under contract.",
    assumptions=["only the functions of block_watcher.rs write the height cell (field is private to the module)"],
    not_covered=["that every block_added notification the node sends reaches new_block, (src/cln_plugin/mod.rs: of dispatch_one only the spawning tail of the notification arm is under contract -- every subscribed handler is started once as its own task, nothing is awaited in place; the handler on_block_added of src/plugin.rs is: every notification that parses is handed to new_block): 'told' means new_block / poll_height was called"])

PROPS["C18"] = dict(P(["tlv_dec", "tlv_enc", "tlv_get"],
    "Proof (Verus, unbounded loop invariant): get_compact_size, SerializedTlvStream::from_bytes and try_from(Vec<u8>) as extracted from src/tlv.rs are total (every bytes::Buf getter's remaining-length precondition is discharged: no panic on any byte string) and return exactly parse(bytes) of the BigSize/TLV spec functions in specs/tlv_spec.rs. Encoder: put_compact_size appends exactly cs_enc(x) (minimal BigSize), to_bytes returns the concatenation of the record encodings (loop invariant), and lemma_cs_roundtrip proves cs_dec(cs_enc(x) ++ rest) == (x, len) for all u64. Lemmas (checked on every run): lemma_parse_of_encoding: parse(enc_all(es)) == Some(es) for every record sequence (encode-then-decode reproduces the records), lemma_decode_then_encode: for every byte string that is an encoding (valid, minimally encoded stream) decoding then encoding reproduces the bytes. Composed with from_bytes == parse and to_bytes == enc_all this is the lossless clause for the real functions. Record access: get returns the first record of the type (None iff there is none), remove deletes exactly that record and keeps all others byte for byte and in order (unit tlv_get, real bodies, hint-free).",
    "Trusted: " + TB_COMMON + " env/bytes.rs (mirror of bytes::Buf: big-endian getters, panic preconditions), AsRef view, 64-bit usize. get_tu64 is proved on its real body in unit tlv_dec (every length: 0..=8 bytes decode to their big-endian value, more are rejected, no panic) with two catalogued adaptations: E16 (`b[i..].copy_from_slice(s)` -> env copy_into_tail with the std panic conditions as preconditions) and the path `u64::from_be_bytes` resolved to an env function of the same meaning (env/tlv_tu64_env.rs: Verus cannot attach a specification to the std function); Buf::chunk() is assumed to be everything that remains (true for the three contiguous buffer types ProtoBuf is implemented for). The Kani harness tu64_decodes_exactly runs the unmodified function for every content of every field of 0..=9 bytes as a second, bounded check.",
    assumptions=["env/bytes.rs describes bytes-1.6 Buf for &[u8], Bytes and Take<Bytes>", "64-bit target"],
    bounded=["get_tu64 (Kani harness tu64_decodes_exactly): BOUNDED in the field length (0..=9 bytes, unwinding assertions on), full domain in the content of the field; an additional check that yields concrete counterexamples -- the clause itself is proved for every length by Verus on the real body (unit tlv_dec), and only that proof is counted"]), kani=[TU64_KANI], kani_quick=True)

NOT_APPLICABLE = {
}
HOOK_COMMITS = ["a595cb4", "8d4e42a", "747697f", "d2148d0", "01828dc", "e05e365", "7bebe0f", "3c90e2c", "5d6f683"]
NOTES = "Contract-based deductive verification of the real code; see DESIGN.md. exit 2 = undecided (never a VIOLATION)."

# where a function that other units enter as a contract-only stub is actually proved
# a unit whose clauses are all stated (same labels) in another unit as well: if it cannot be decided
# while the other one can, that is recorded, not reported as undecided
REDUNDANT = {"handle_gate": "handle"}

PROVED_IN = {
    "rpc::ClnRpc::*": "unit rpc (src/rpc.rs hands back exactly what the node answered; the env contracts of ClnRpc used by units store/provider/waitpay/height describe the node behind it)",
    "messages::HtlcFailReason::encode": "Kani harnesses encode_policy_exact / encode_constants_exact (full input domain), run by ./check C12",
    "messages::TrampolineRoutingPolicy::fee_sufficient": "unit fee",
    "htlc_manager::PaymentState::resolve": "unit paystate",
    "htlc_manager::PaymentState::new": "unit paystate (same clause text, specs/paystate.rs)",
    "payment_provider::PayPaymentProvider::new": "unit provider (same clause text, specs/provider.rs)",
    "htlc_manager::payment_lifecycle": "unit lifecycle (proved against specs/lifecycle.rs; in unit handle it has NO contract: handle_htlc only hands it to tokio::spawn)",
    "htlc_manager::PaymentState::add_htlc": "unit paystate",
    "htlc_manager::PaymentState::fail": "unit paystate",
    "tlv::ProtoBuf::get_compact_size": "unit tlv_dec",
    "tlv::SerializedTlvStream::get": "unit tlv_get",
    "tlv::ProtoBuf::get_tu64": "unit tlv_dec (and, bounded, the Kani harness tu64_decodes_exactly)",
    "tlv::SerializedTlvStream::remove": "unit tlv_get",
    "tlv::SerializedTlvStream::from_bytes": "unit tlv_dec",
    "tlv::SerializedTlvStream::try_from": "unit tlv_dec",
    "tlv::SerializedTlvStream::to_bytes": "unit tlv_enc",
    "payment_provider::PayPaymentProvider::wait_payment": "unit waitpay (same two clauses, stated over the unit-local per-part ghost)",
}
