"""Property -> units table (which real functions are put under contract for which property)."""

PROPS = {
    "C12": {
        "units": ["fee"],
        "level": "proof",
        "level_text": "Proof (Verus, unbounded): fee_sufficient as extracted from src/messages.rs satisfies the exact integer predicate of the statement for all u64 x u64 x u32 x u32 outside the region of known finding F-C12-a, never answers true when the exact predicate is false anywhere, and has no overflow/panic. One proof covers checked and wrapping builds because no overflow occurs.",
        "level_note": "Trusted: Verus+Z3; vstd specs of checked_mul/checked_add; extraction edits E1 (attributes) only. Known finding F-C12-a (amount*ppm >= 2^64 answers false) is excluded by region and reported as KNOWN-FINDING. Failure-message encoding and the gate clause are added by units failmsg/handle (see evidence).",
        "explanation": "fee_sufficient verbatim from src/messages.rs against the exact integer predicate of the property statement (mathematical integers), incl. absence of overflow/panic.",
        "assumptions": [],
        "not_covered": [],
    },
}

NOT_APPLICABLE = {}
HOOK_COMMITS = ["a595cb4"]
NOTES = "Contract-based deductive verification of the real code; see DESIGN.md. exit 2 = undecided (never a VIOLATION)."
