#!/usr/bin/env python3
"""Like run_seed.py but on a scratch copy of the clean sources (git archive of /repo HEAD), so that
it can run while something else is using /repo's working tree.  The Kani part of a check is
skipped on scratch trees.  usage: tools/run_seed_scratch.py <seed-id | path/to/patch.diff> [prop ...]"""
import json, os, shutil, subprocess, sys, tempfile
V = "/verif"
arg = sys.argv[1]
if os.path.isfile(arg):
    patch, props = arg, sys.argv[2:]
else:
    d = os.path.join(V, "seeded", arg)
    patch = os.path.join(d, "patch.diff")
    props = sys.argv[2:] or [json.load(open(os.path.join(d, "meta.json")))["breaks_property"]]
t = tempfile.mkdtemp(prefix="vscr_")
try:
    subprocess.run(f"git -C /repo archive HEAD src | tar -x -C {t}", shell=True, check=True)
    r = subprocess.run(["patch", "-p1", "-s", "-i", patch], cwd=t, capture_output=True, text=True)
    if r.returncode != 0:
        print("patch does not apply:", r.stdout[:300]); sys.exit(2)
    for p in props:
        env = dict(os.environ, VERIF_REPO=t, VERIF_NO_EVIDENCE="1", VERIF_NO_SELFTEST="1")
        c = subprocess.run([os.path.join(V, "check"), p], capture_output=True, text=True, cwd=V, env=env)
        lines = [l for l in c.stdout.split("\n") if l.startswith("VIOLATION") or l.strip().startswith("obligation") or l.startswith("UNDECIDED")]
        print(p, "exit", c.returncode)
        for l in lines[:4]:
            print("   ", l[:280])
finally:
    shutil.rmtree(t, ignore_errors=True)
