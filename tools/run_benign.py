#!/usr/bin/env python3
"""Behaviour-preserving refactors stored under seeded/benign/<id>/ (patch.diff + meta.json with the
properties whose code they touch): each is applied to a scratch copy of /repo/src (never to
/repo) and the listed checks are run.  Exit 0 (held) is the wanted answer, exit 2 (undecided) is
tolerated and recorded, exit 1 is a FALSE ALARM of the machinery.
usage: tools/run_benign.py [id ...]"""
import glob, json, os, shutil, subprocess, sys, tempfile
V = os.path.dirname(os.path.dirname(os.path.abspath(__file__)))
only = set(sys.argv[1:])
rows, bad = [], 0
for d in sorted(glob.glob(os.path.join(V, "seeded", "benign", "*"))):
    meta = json.load(open(os.path.join(d, "meta.json")))
    if only and meta["id"] not in only:
        continue
    t = tempfile.mkdtemp(prefix="vben_")
    try:
        shutil.copytree("/repo/src", os.path.join(t, "src"))
        pr = subprocess.run(["patch", "-p1", "-s", "-i", os.path.join(d, "patch.diff")], cwd=t, capture_output=True, text=True)
        if pr.returncode != 0:
            print(meta["id"], "patch does not apply:", pr.stdout[:200]); continue
        for p in meta["props"]:
            env = dict(os.environ, VERIF_REPO=t, VERIF_NO_EVIDENCE="1", VERIF_NO_SELFTEST="1")
            r = subprocess.run([os.path.join(V, "check"), p], capture_output=True, text=True, env=env, cwd=V)
            first = next((l.strip() for l in r.stdout.split("\n") if l.startswith("UNDECIDED") or l.strip().startswith("obligation")), "")
            rows.append((meta["id"], p, r.returncode, first[:160]))
            print(meta["id"], p, r.returncode, first[:200])
            bad += r.returncode == 1
    finally:
        shutil.rmtree(t, ignore_errors=True)
with open(os.path.join(V, "seeded", "BENIGN.md"), "w") as f:
    f.write("# Behaviour-preserving refactors against the current checks (tools/run_benign.py)\n\n| refactor | property | exit | note |\n|---|---|---|---|\n")
    for r in rows:
        f.write("| %s | %s | %s | %s |\n" % (r[0], r[1], {0: "0 (held)", 2: "2 (undecided)", 1: "1 (FALSE ALARM)"}.get(r[2], r[2]), r[3].replace("|", "/")))
    f.write("\nheld %d / undecided %d / false alarms %d of %d\n" % (sum(r[2] == 0 for r in rows), sum(r[2] == 2 for r in rows), sum(r[2] == 1 for r in rows), len(rows)))
sys.exit(1 if bad else 0)
