#!/usr/bin/env python3
"""Record, for every struct/enum of /repo/src, the serde attributes and the serde-related derives it
carries on the pinned tree (specs/attr_baseline.json).  E1 drops these attributes from the extracted
text; the (de)serialization assumptions of env/ (serde round trip of the stored records, field names
of the hook messages) were stated for exactly these attributes, so Unit.item() compares."""
import json, os, re, sys
sys.path.insert(0, os.path.dirname(os.path.dirname(os.path.abspath(__file__))))
from vlib.core import Src, serde_signature, shape_signature
out = {}
for root, _, fs in os.walk("/repo/src"):
    for f in sorted(fs):
        if not f.endswith(".rs") or f == "verif_hooks.rs":
            continue
        rel = os.path.relpath(os.path.join(root, f), "/repo/src")
        s = Src.get(rel)
        for it in s._walk(s.index["items"]):
            if it["kind"] in ("struct", "enum"):
                out[f"{rel}::{it['qual']}"] = {"serde": serde_signature(s, it), "shape": shape_signature(s, it)}
json.dump(out, open(os.path.join(os.path.dirname(os.path.dirname(os.path.abspath(__file__))), "specs", "attr_baseline.json"), "w"), indent=1, sort_keys=True)
print(len(out), "items")
