#!/usr/bin/env python3
"""Self-test: apply textual mutants to a scratch copy of /repo/src (never to /repo) and record
which property checks report a violation.  usage: tools/mutate.py <mutants.json> [ids...]"""
import json, os, shutil, subprocess, sys, tempfile
VERIF = os.path.dirname(os.path.dirname(os.path.abspath(__file__)))

def main():
    muts = json.load(open(sys.argv[1]))
    only = set(sys.argv[2:])
    res = []
    for m in muts:
        if only and m["id"] not in only:
            continue
        d = tempfile.mkdtemp(prefix="vmut_")
        try:
            if os.environ.get("MUTATE_FROM_HEAD"):
                # development aid: take the committed sources (something else may be patching /repo's working tree)
                subprocess.run(f"git -C /repo archive HEAD src | tar -x -C {d}", shell=True, check=True)
            else:
                shutil.copytree("/repo/src", os.path.join(d, "src"))
            p = os.path.join(d, "src", m["file"])
            s = open(p).read()
            if s.count(m["old"]) != 1:
                print(m["id"], "ANCHOR-LOST", s.count(m["old"]))
                continue
            s = s.replace(m["old"], m["new"])
            if "also" in m:
                if s.count(m["also"]["old"]) != 1:
                    print(m["id"], "ANCHOR-LOST (also)")
                    continue
                s = s.replace(m["also"]["old"], m["also"]["new"])
            open(p, "w").write(s)
            out = {}
            for prop in m["props"]:
                env = dict(os.environ, VERIF_REPO=d, VERIF_NO_EVIDENCE="1")
                r = subprocess.run([os.path.join(VERIF, "check"), prop], capture_output=True, text=True, env=env, cwd=VERIF)
                obl = [l.strip() for l in r.stdout.split("\n") if l.strip().startswith("obligation") or l.startswith("UNDECIDED")]
                out[prop] = (r.returncode, obl[:3])
            print(m["id"], m.get("desc", ""), {k: v[0] for k, v in out.items()})
            for k, v in out.items():
                for o in v[1]:
                    print("     ", k, o[:230])
            res.append({"id": m["id"], "result": {k: v[0] for k, v in out.items()}})
        finally:
            shutil.rmtree(d, ignore_errors=True)
    return 0

if __name__ == "__main__":
    sys.exit(main())
