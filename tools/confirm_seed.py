#!/usr/bin/env python3
"""Confirm a seeded change in its scratch worktree, then store it under /verif/seeded/<id>/.
usage: tools/confirm_seed.py <worktree> <seed-id> <property> "<needs to manifest>"
 (1) clean + demo.diff      => demo passes
 (2) patch.diff + demo.diff => demo fails
 (3) patch.diff alone       => the existing suite passes (56 tests)
"""
import json, os, re, shutil, subprocess, sys
wt, sid, prop, needs = sys.argv[1:5]
seed = os.path.join(wt, "seed")
def sh(cmd, **kw):
    return subprocess.run(cmd, shell=True, cwd=wt, capture_output=True, text=True, **kw)
def clean():
    sh("git checkout -- . && git clean -fdq -e seed -e target")
def apply(f):
    r = sh(f"git apply {os.path.join(seed, f)}")
    if r.returncode != 0:
        print("apply failed", f, r.stderr); sys.exit(1)
def test(filter_=""):
    r = sh(f"cargo test --offline {filter_} 2>&1 | grep -E '^test result|^test .* (ok|FAILED)$' | tail -80")
    return r.stdout
# the seed dir must survive `git clean`
clean(); apply("demo.diff")
demo_files = sh("git status --porcelain").stdout
dd = open(os.path.join(seed, "demo.diff")).read()
m = re.search(r"^\+.*mod (\w+);", dd, re.M)
filt = m.group(1) if m else "seed_demo"
mi = re.search(r"^\+\+\+ b/tests/(\w+)\.rs", dd, re.M)
if mi and not m:
    filt = "--test " + mi.group(1)      # the demo is an integration test target
o1 = test(filt)
apply("patch.diff")
o2 = test(filt)
clean(); apply("patch.diff")
o3 = test("")
clean()
res = {
    "demo_without_patch": o1.strip().split("\n")[-1],
    "demo_with_patch": o2.strip().split("\n")[-1],
    "suite_with_patch_only": [l for l in o3.strip().split("\n") if l.startswith("test result")],
    "failed_demo_tests": [l for l in o2.split("\n") if l.endswith("FAILED")],
}
ok = ("ok." in res["demo_without_patch"] and "FAILED" in res["demo_with_patch"]
      and any("56 passed; 0 failed" in l for l in res["suite_with_patch_only"]))
print(json.dumps(res, indent=1)); print("CONFIRMED" if ok else "NOT CONFIRMED")
if ok:
    d = os.path.join("/verif/seeded", sid)
    os.makedirs(d, exist_ok=True)
    for f in ("patch.diff", "demo.diff", "README.md"):
        if os.path.exists(os.path.join(seed, f)):
            shutil.copy(os.path.join(seed, f), os.path.join(d, f))
    json.dump({"id": sid, "breaks_property": prop, "needs_to_manifest": needs,
               "confirmed": res, "confirmed_with": "tools/confirm_seed.py in a scratch worktree of /repo (removed afterwards)",
               "demo_filter": filt}, open(os.path.join(d, "meta.json"), "w"), indent=1)
sys.exit(0 if ok else 1)
