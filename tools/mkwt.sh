#!/bin/bash
# usage: tools/mkwt.sh <name>  -> /tmp/wt_<name> (git worktree of /repo HEAD + copy of target for incremental builds)
set -e
d=/tmp/wt_$1
git -C /repo worktree add --detach $d HEAD >/dev/null 2>&1
mkdir -p $d/target
cp -r /repo/target/debug $d/target/debug 2>/dev/null || true
rm -rf $d/target/debug/incremental
echo $d
