#!/usr/bin/env python3
"""Every stored seed against the check of the property it breaks, in parallel on scratch copies of
the committed sources (Kani is skipped there); a seed that is not reported on its scratch copy is
then run once more on /repo itself (tools/run_seed.py, sequentially) so that the Kani harnesses get
their say.  Writes seeded/RESULTS.md.  usage: tools/run_all_seeds_parallel.py [workers]"""
import glob, json, os, shutil, subprocess, sys, tempfile
from concurrent.futures import ThreadPoolExecutor
V = "/verif"
W = int(sys.argv[1]) if len(sys.argv) > 1 else 5
seeds = []
for d in sorted(glob.glob(os.path.join(V, "seeded", "C*"))):
    m = json.load(open(os.path.join(d, "meta.json")))
    seeds.append((m["id"], m["breaks_property"], os.path.join(d, "patch.diff")))

def first_line(out):
    ls = out.split("\n")
    obl = next((l.strip() for l in ls if l.strip().startswith("obligation")), "")
    und = next((l.strip() for l in ls if l.strip().startswith("UNDECIDED")), "")
    return (obl or und)[:150]

def scratch(s):
    sid, prop, patch = s
    t = tempfile.mkdtemp(prefix="vpar_")
    try:
        subprocess.run(f"git -C /repo archive HEAD src | tar -x -C {t}", shell=True, check=True)
        if subprocess.run(["patch", "-p1", "-s", "-i", patch], cwd=t, capture_output=True).returncode != 0:
            return sid, prop, "?", "patch does not apply"
        env = dict(os.environ, VERIF_REPO=t, VERIF_NO_EVIDENCE="1", VERIF_NO_SELFTEST="1")
        c = subprocess.run([os.path.join(V, "check"), prop], capture_output=True, text=True, cwd=V, env=env)
        return sid, prop, str(c.returncode), first_line(c.stdout)
    finally:
        shutil.rmtree(t, ignore_errors=True)

rows = {}
with ThreadPoolExecutor(max_workers=W) as ex:
    for sid, prop, code, line in ex.map(scratch, seeds):
        rows[sid] = (sid, prop, code, line)
        print(sid, prop, code, flush=True)
for sid, prop, code, line in list(rows.values()):
    if code == "0":
        r = subprocess.run(["python3", os.path.join(V, "tools", "run_seed.py"), sid, prop], capture_output=True, text=True, cwd=V)
        first = r.stdout.strip().split("\n")
        code2 = first[0].split()[-1] if first and "exit" in first[0] else "?"
        rows[sid] = (sid, prop, code2, first_line(r.stdout) + " [on /repo, with Kani]")
        print(sid, prop, "->", code2, flush=True)
rs = [rows[k] for k in sorted(rows)]
with open(os.path.join(V, "seeded", "RESULTS.md"), "w") as f:
    f.write("# Stored seeds against the current checks (tools/run_all_seeds_parallel.py)\n\n| seed | property | exit | first reported line |\n|---|---|---|---|\n")
    for r in rs:
        f.write("| %s | %s | %s | %s |\n" % (r[0], r[1], {"1": "1 (VIOLATION)", "2": "2 (undecided)", "0": "0 (missed)"}.get(r[2], r[2]), r[3].replace("|", "/")))
    f.write("\ncaught %d / undecided %d / missed %d of %d\n" % (sum(r[2] == "1" for r in rs), sum(r[2] == "2" for r in rs), sum(r[2] == "0" for r in rs), len(rs)))
print("caught %d / undecided %d / missed %d of %d" % (sum(r[2] == "1" for r in rs), sum(r[2] == "2" for r in rs), sum(r[2] == "0" for r in rs), len(rs)))
