#!/usr/bin/env python3
"""Apply every stored seed to /repo in turn, run the check of the property it breaks, undo it;
writes seeded/RESULTS.md."""
import json, os, subprocess, glob
V = "/verif"
rows = []
for d in sorted(glob.glob(os.path.join(V, "seeded", "C*"))):
    meta = json.load(open(os.path.join(d, "meta.json")))
    sid, prop = meta["id"], meta["breaks_property"]
    r = subprocess.run(["python3", os.path.join(V, "tools", "run_seed.py"), sid, prop], capture_output=True, text=True, cwd=V)
    first = r.stdout.strip().split("\n")
    code = first[0].split()[-1] if first and "exit" in first[0] else "?"
    obl = next((l.strip() for l in first if l.strip().startswith("obligation")), "")
    und = next((l.strip() for l in first if l.strip().startswith("UNDECIDED")), "")
    rows.append((sid, prop, code, (obl or und)[:150]))
    print(sid, prop, code)
with open(os.path.join(V, "seeded", "RESULTS.md"), "w") as f:
    f.write("# Stored seeds against the current checks (tools/run_all_seeds.py)\n\n| seed | property | exit | first reported line |\n|---|---|---|---|\n")
    for r in rows:
        f.write("| %s | %s | %s | %s |\n" % (r[0], r[1], {"1": "1 (VIOLATION)", "2": "2 (undecided)", "0": "0 (missed)"}.get(r[2], r[2]), r[3].replace("|", "/")))
    n = len(rows)
    f.write("\ncaught %d / undecided %d / missed %d of %d\n" % (sum(r[2] == "1" for r in rows), sum(r[2] == "2" for r in rows), sum(r[2] == "0" for r in rows), n))
