#!/usr/bin/env python3
"""Apply a stored seeded change to /repo, run the given property checks, undo it.
usage: tools/run_seed.py <seed-id> [prop ...]   (default: the property it breaks)"""
import json, os, subprocess, sys
V = "/verif"
sid = sys.argv[1]
d = os.path.join(V, "seeded", sid)
meta = json.load(open(os.path.join(d, "meta.json")))
props = sys.argv[2:] or [meta["breaks_property"]]
st = subprocess.run("git -C /repo status --porcelain", shell=True, capture_output=True, text=True).stdout.strip()
if st:
    print("refusing: /repo is not clean:", st); sys.exit(2)
r = subprocess.run(f"git -C /repo apply {d}/patch.diff", shell=True, capture_output=True, text=True)
if r.returncode != 0:
    print("patch does not apply:", r.stderr); sys.exit(2)
out = {}
try:
    for p in props:
        env = dict(os.environ, VERIF_NO_EVIDENCE="1")
        c = subprocess.run([os.path.join(V, "check"), p], capture_output=True, text=True, cwd=V, env=env)
        lines = [l for l in c.stdout.split("\n") if l.startswith("VIOLATION") or l.strip().startswith("obligation") or l.startswith("UNDECIDED")]
        out[p] = {"exit": c.returncode, "lines": lines[:6]}
        print(p, "exit", c.returncode)
        for l in lines[:6]:
            print("   ", l[:260])
finally:
    subprocess.run("git -C /repo checkout -- . && git -C /repo clean -fdq", shell=True)
meta.setdefault("checks", {}).update(out)
json.dump(meta, open(os.path.join(d, "meta.json"), "w"), indent=1)
