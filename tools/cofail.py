#!/usr/bin/env python3
"""For every stored seed: run ALL units (no projection) on a scratch copy with the seed applied and
list every failing obligation with its tags; report the clauses that fail in a seed of property P
but do not carry P's tag (candidates for the tag audit).  usage: tools/cofail.py [seed-id ...]"""
import glob, json, os, shutil, subprocess, sys, tempfile
from concurrent.futures import ThreadPoolExecutor
V = "/verif"
sys.path.insert(0, V)
only = set(sys.argv[1:])
seeds = []
for d in sorted(glob.glob(os.path.join(V, "seeded", "C*"))):
    m = json.load(open(os.path.join(d, "meta.json")))
    if only and m["id"] not in only:
        continue
    seeds.append((m["id"], m["breaks_property"], os.path.join(d, "patch.diff")))
units = sorted(json.load(open(os.path.join(V, "unit_tags.json"))))
RUN = r'''
import sys, json; sys.path.insert(0, "/verif")
from vlib import run
out = []
for un in sys.argv[1:]:
    try:
        r = run.run_unit(un, None, False)
        for f in r["failures"]:
            out.append({"unit": un, "name": f["name"], "tags": f.get("tags"), "kind": f["kind"]})
        for x in r["undecided"]:
            out.append({"unit": un, "undecided": x[:120]})
    except Exception as e:
        out.append({"unit": un, "undecided": str(e)[:120]})
print("JSON" + json.dumps(out))
'''
def one(s):
    sid, prop, patch = s
    t = tempfile.mkdtemp(prefix="vcof_")
    try:
        subprocess.run(f"git -C /repo archive HEAD src | tar -x -C {t}", shell=True, check=True)
        if subprocess.run(["patch", "-p1", "-s", "-i", patch], cwd=t, capture_output=True).returncode != 0:
            return sid, prop, None
        env = dict(os.environ, VERIF_REPO=t)
        p = subprocess.run([sys.executable, "-c", RUN] + units, capture_output=True, text=True, env=env, cwd=V)
        line = [l for l in p.stdout.split("\n") if l.startswith("JSON")]
        return sid, prop, json.loads(line[0][4:]) if line else None
    finally:
        shutil.rmtree(t, ignore_errors=True)
res = {}
with ThreadPoolExecutor(max_workers=4) as ex:
    for sid, prop, out in ex.map(one, seeds):
        res[sid] = {"prop": prop, "failures": out}
        print(sid, prop, "ERR" if out is None else len(out), flush=True)
json.dump(res, open("/tmp/p/cofail.json", "w"), indent=1)
# baseline failures (known findings) are not interesting
base = set()
print("\n== clauses failing in a seed of P that lack tag P ==")
cand = {}
for sid, r in res.items():
    for f in (r["failures"] or []):
        if "name" not in f:
            continue
        tags = f.get("tags") or []
        if r["prop"] not in tags:
            cand.setdefault((f["name"], tuple(tags)), []).append(sid + ":" + r["prop"])
for (name, tags), sids in sorted(cand.items()):
    print(name, list(tags), "<-", ", ".join(sids))
