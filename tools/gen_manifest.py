#!/usr/bin/env python3
"""Regenerates MANIFEST.json from props.py (single source of truth for what is claimed)."""
import json, os, sys
VERIF = os.path.dirname(os.path.dirname(os.path.abspath(__file__)))
sys.path.insert(0, VERIF)
import props

ALL = [json.loads(l)["id"] for l in open(os.path.join(VERIF, "properties.jsonl"))]
checks = []
for pid in ALL:
    P = props.PROPS.get(pid)
    if not P:
        continue
    checks.append({
        "property_id": pid,
        "quick_cmd": f"./check {pid} --tier quick",
        "thorough_cmd": f"./check {pid} --tier thorough",
        "evidence_file": f"/verif/evidence/{pid}.json",
        "replay_cmd_template": f"./check {pid} --replay {{path}}",
        "engine": "verus-contracts",
        "level_claimed": {"category": P.get("level", "proof"), "text": P["level_text"], "design_ref": P.get("design_ref", "DESIGN.md section 7")},
        "level_note": P["level_note"],
        "technique": P.get("technique", "contract-based deductive verification (Verus) of the functions extracted from /repo on every run"),
    })
na = [{"property_id": pid, "reason": props.NOT_APPLICABLE.get(pid, "no check built yet for this property (work in progress); not claimed")}
      for pid in ALL if pid not in props.PROPS]
m = {
    "version": 1,
    "setup_cmd": "cd /verif/vx && cargo build --release --offline && (cd /repo && CARGO_NET_OFFLINE=true timeout 900 cargo kani --target-dir /verif/.cache/kani-target --harness encode_constants_exact >/dev/null 2>&1 || true; CARGO_NET_OFFLINE=true timeout 900 cargo kani --target-dir /verif/.cache/kani-target -Z stubbing --harness tu64_decodes_exactly >/dev/null 2>&1 || true)",
    "hooks": {
        "guard": "cfg(any(kani, feature = \"verif\"))",
        "enable": "cargo test --offline --features verif (native replay); cargo kani (sets cfg(kani)) for the leaf harnesses in src/verif_hooks.rs",
        "baseline_off_cmd": "cd /repo && cargo test --workspace --no-fail-fast --offline",
        "source_commits": props.HOOK_COMMITS,
        "add_only": True,
    },
    "engines": [
        {"name": "verus-contracts", "path": "/verif/check", "serves_properties": [c["property_id"] for c in checks],
         "kind_free_text": "vx (syn span indexer) + python assembler: byte-range extraction of real functions, catalogued edits E1-E8, contracts from specs/, assumed dependency contracts from env/, discharged by Verus; Kani leaf harnesses for counterexamples"},
    ],
    "checks": checks,
    "notes": props.NOTES,
    "not_applicable": na,
}
json.dump(m, open(os.path.join(VERIF, "MANIFEST.json"), "w"), indent=1)
print("MANIFEST.json:", len(checks), "checks,", len(na), "not applicable")

# ---- unit_tags.json: which properties each unit carries clauses for (relevance is by clause tag;
# a check runs every unit that has a clause tagged with its property, not only the units listed in
# props.py -- several seeded changes were detected by a unit that the property's list did not name)
def _unit_tags():
    from vlib import run
    from vlib.core import Undecided
    os.environ.setdefault("VERIF_REPO", "/repo")
    units = sorted({u for P in props.PROPS.values() for u in P["units"]})
    out = {}
    for un in units:
        try:
            u, _ = run.assemble(un, None, False)
        except Undecided as e:
            print(f"unit_tags: {un}: {e} (kept from the previous file)")
            continue
        tags = set()
        for o in u.obligations:
            tags |= set(o.get("tags") or [])
        for t in u.implicit_tags.values():
            tags |= set(t or [])
        for pc in u.pieces:
            if isinstance(pc.tag, dict):
                tags |= set(pc.tag.get("tags") or [])
        out[un] = sorted(t for t in tags if t in props.PROPS)
    return out


path = os.path.join(VERIF, "unit_tags.json")
old = json.load(open(path)) if os.path.exists(path) else {}
old.update(_unit_tags())
json.dump(old, open(path, "w"), indent=1, sort_keys=True)
